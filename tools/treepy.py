"""Run python code against the atsim-potentials source tree given as first argument.

usage:  /venv/bin/python /tmp/mutkit/treepy.py <tree> -m pytest -q -p no:cacheprovider [pytest args]
        /venv/bin/python /tmp/mutkit/treepy.py <tree> path/to/script.py [args]

/venv has an *editable* install of atsim-potentials that is hard-wired to /repo; a plain
`python` or `pytest` started inside another checkout would still import /repo's code.
This launcher re-binds the `atsim` package to <tree> and verifies that it worked.
"""
import sys, os, runpy
tree = os.path.abspath(sys.argv[1]); rest = sys.argv[2:]
m = sys.modules.get('atsim')
if m is not None:
    m.__path__[:] = [os.path.join(tree, 'atsim')]
sys.meta_path[:] = [f for f in sys.meta_path if not str(getattr(f, '__module__', '')).startswith('__editable__')]
sys.path[:] = [p for p in sys.path if os.path.abspath(p or '.') != '/repo']
sys.path.insert(0, tree)
sys.dont_write_bytecode = True
import warnings; warnings.filterwarnings('ignore', category=SyntaxWarning)
import atsim.potentials
assert os.path.abspath(atsim.potentials.__file__).startswith(tree + os.sep), atsim.potentials.__file__
if rest and rest[0] == '-m':
    sys.argv = rest[1:]
    runpy.run_module(rest[1], run_name='__main__', alter_sys=True)
else:
    sys.argv = rest
    sys.path.insert(0, os.path.dirname(os.path.abspath(rest[0])))
    runpy.run_path(rest[0], run_name='__main__')
