"""run potable's main() (used through tools/treepy.py so that the package is bound to the tree under test)"""
import os, sys
sys.path.insert(0, os.path.dirname(os.path.dirname(os.path.abspath(__file__))))
from mc import seams
seams.process_environment()
from atsim.potentials.tools.potable import main
main()
