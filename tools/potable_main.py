"""run potable's main() (used through tools/treepy.py so that the package is bound to the tree under test)"""
from atsim.potentials.tools.potable import main
main()
