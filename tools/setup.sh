#!/bin/sh
# Offline setup: nothing to build or install; verify the interpreter, the binding to /repo and the harness self-test.
cd "$(dirname "$0")/.." || exit 1
export PYTHONDONTWRITEBYTECODE=1 PYTHONWARNINGS=ignore
/venv/bin/python -W ignore - <<'PY' || exit 1
import sys
sys.path.insert(0, '.')
from mc import boot
boot.bind()
import atsim.potentials, numpy, scipy, openpyxl, cexprtk, pyparsing, wrapt
print('setup ok: atsim.potentials from', atsim.potentials.__file__)
from mc import selftest
selftest.main()
PY
