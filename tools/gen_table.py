#!/usr/bin/env python3
"""Prints the per-property table of DESIGN.md section 9 from the evidence files (quick tier)."""
import json, os
V = os.path.dirname(os.path.dirname(os.path.abspath(__file__)))
import sys, io
_out = io.StringIO()
_real = sys.stdout
sys.stdout = _out
print('| id | level | cases executed (non-trivial) | evaluations / transitions | outcome classes | wall | bounds completed (quick) |')
print('|---|---|---|---|---|---|---|')
for i in range(1, 21):
    c = 'C%02d' % i
    d = json.load(open(os.path.join(V, 'evidence', c + '.json')))
    cov = d['coverage']
    ev = cov.get('evaluations') or cov.get('transitions') or 0
    extra = ''
    if cov.get('states'):
        extra = '; %s states' % cov['states']
    print('| %s | %s | %s (%s) | %s%s | %s | %.0f s | %s |' % (c, d['level'], cov['cases_executed'], cov.get('distinct_nontrivial', ''), ev, extra, cov.get('distinct_outcome_classes', ''), d['wall_s'], cov.get('bounds', '')))

sys.stdout = _real
if '--update-design' in sys.argv:
    p = os.path.join(V, 'DESIGN.md')
    t = open(p).read()
    a = t.index('<!-- TABLE9 BEGIN')
    a = t.index('\n', a) + 1
    b = t.index('<!-- TABLE9 END -->')
    open(p, 'w').write(t[:a] + _out.getvalue() + t[b:])
    print('DESIGN.md section 9 table updated')
else:
    sys.stdout.write(_out.getvalue())
