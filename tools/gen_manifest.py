#!/usr/bin/env python3
"""Regenerates /verif/MANIFEST.json from the table below (run with python3-vt to also validate it)."""
import json, os, sys

VERIF = os.path.dirname(os.path.dirname(os.path.abspath(__file__)))
ALL = ['C%02d' % i for i in range(1, 21)]

E1 = 'E1-enumerator'
E2 = 'E2-history-explorer'
E3 = 'E3-fault-enumerator'

# id -> (engine, category, technique, text, note, design_ref)
CHECKS = {
    'C01': (E1, 'exploration',
            'bounded exhaustive enumeration of pair models x grids x 4 access routes on the real code; output re-parsed by an independent pair_style-table reader and compared with a reference model (closed forms + 2nd-order AD jets)',
            'Every model of the stated finite space (1-3 potentials from a 27-entry library incl. custom/table/splined/multi-range/Python callables, all label arrangements, grid lattice, 4 routes) is tabulated by the implementation and every row of every block is compared with the reference; no sampling. This is the level that fits a pure, sequential formatter: the failure modes are positional (off-by-one grid, wrong sign, swapped key) and appear at small scope.',
            'Trusted: reference closed forms (docs), LAMMPS table syntax as encoded in mc/readers/pair.py, CPython/numpy/scipy. Real-valued parameters decided on lattices only.',
            'DESIGN.md 4/C01'),
    'C02': (E1, 'exploration',
            'bounded exhaustive enumeration of pair models x grids (nr multiple of 4) x 4 routes x both target spellings on the real code, fixed-width TABLE reader + reference model; every nr in 3..41 not divisible by 4 enumerated for the rejection rule; failed-write histories',
            'Every case of the stated finite space is executed; header, record layout, every energy and every -r dV/dr value compared with the reference; rejection of every non-multiple-of-4 row count checked on all routes (exception class / configuration error / nothing written).',
            'Trusted: reference closed forms, DL_POLY TABLE layout as encoded in mc/readers/pair.py. nr=4 (division by zero in delpot) belongs to C16.',
            'DESIGN.md 4/C02'),
    'C03': (E1, 'exploration',
            'bounded exhaustive enumeration of EAM models (all ordered element subsets x all pair subsets x orientations x listing orders x metadata sources x grids x 4 routes) on the real code; setfl token-stream reader + reference model; two-model histories',
            'Every model of the stated finite space is written by the implementation and every number of every block (metadata, F(i*drho), rho(i*dr), r*phi for (i,j<=i) in header order, zero-fill) is compared with the reference. All functions are injective in their identity so mis-routing cannot cancel.',
            'Trusted: setfl layout as LAMMPS reads it (mc/readers/eam.py), reference closed forms, built-in element constants for Al/Cu/Fe/Ni.',
            'DESIGN.md 4/C03'),
    'C04': (E1, 'exploration',
            'bounded exhaustive enumeration of Finnis-Sinclair models: every subset of the n^2 ordered density entries (n<=3), entry orders, embedding orders, under-specified models x 3 targets x 4 routes; consumer-rule readers; slot-by-slot and toy-cluster oracles',
            'Every subset of declared A->B entries is tabulated and every density slot of every format is compared with the function (or zero) the consumer rule assigns to it; the density of every atom of three toy clusters is recomputed from the file.',
            'Trusted: the consumer rules of LAMMPS eam/fs, DL_POLY EEAM and the Excel layout as stated in mc/checks/C04.py.',
            'DESIGN.md 4/C04'),
    'C05': (E1, 'exploration',
            'bounded exhaustive enumeration of EAM and Finnis-Sinclair models x grids (incl. a (cutoff,n) lattice sweep) x 4 routes; strict TABEAM reader (declared counts vs blocks, n values per block) + reference model',
            'Every model is tabulated; declared function count, number/uniqueness/completeness of pair/embe/dens blocks, header n/x0/x1 and every value are compared.',
            'Trusted: TABEAM layout as encoded in mc/readers/eam.py; %f printing (1e-6 resolution).',
            'DESIGN.md 4/C05'),
    'C19': (E1, 'exploration',
            'bounded exhaustive enumeration on the real code: GULP and excel over the pair-model space and a (cutoff,nr) lattice; eam_adp / excel_eam / excel_eam_fs over EAM model spaces (all pair, dipole and quadrupole subsets for <= 3 elements); writeFuncFL over elements x grids; independent readers (GULP, setfl+adp token stream, funcfl, openpyxl) + reference model',
            'Every case executed and every number compared: GULP rows/header/grid, ADP setfl prefix + unscaled u/w blocks with zero-fill in header order, funcfl header grid and Z(r)^2 back-conversion, Excel first column and every labelled cell.',
            'Trusted: format rules encoded in mc/readers, openpyxl reader, reference closed forms.',
            'DESIGN.md 4/C19'),
    'C06': (E1, 'exploration',
            'exhaustive evaluation of every point of per-form parameter lattices x separation lattice through all four access routes on the real code, compared with independently written documented closed forms',
            'All 15 forms, every lattice point (negative/zero/small/large/fractional/integer-typed parameters, polynomial orders 0..8, every zero pattern of Tang-Toennies coefficients) is evaluated through f(r,p), factory, as.NAME in [Pair] and as.NAME(r,..) in a formula (literal and positionally bound); parameter vectors with pairwise distinct components make any binding swap visible.',
            'Trusted: the closed forms in mc/refmodel/forms.py (docs), constants of coul/zbl/Tang-Toennies as in DESIGN 2.3. Lattices, not all reals.',
            'DESIGN.md 4/C06'),
    'C07': (E1, 'exploration',
            'bounded exhaustive enumeration of expression trees (depth <= 2, thorough 3) over 22 leaves x combinators through the Python API and the potable language, every tree evaluated on a separation lattice; oracle = second-order forward-mode AD jets of the reference model with a propagated finite-difference error model',
            'Every tree of the stated space is built on the real code; where deriv/deriv2 are offered they are compared with exact jets; offered-ness follows the documented rule; exceptions from deriv where the energy is defined are violations.',
            'Trusted: AD jets of the documented formulas; documented numerical fallback h=1e-6 and its rounding-error model (DESIGN 2.5).',
            'DESIGN.md 4/C07'),
    'C08': (E1, 'exploration',
            'exhaustive enumeration of every set of 1..4 (thorough 5) ranges over {>,>=} x {0,1,2,3} (+ -inf), every listing order, three constructions (class, factory, potable text), three evaluation orders on the same object; oracle = set-based reference of the documented selection rule with identifiable quadratics',
            'Every range set and every permutation of it is built on the real code and evaluated (value, deriv, deriv2) below, at, between and above every start including the adjacent floats, in ascending, descending and interleaved order; listing- and evaluation-order independence are checked by comparing all observations of one set.',
            'Trusted: the reading of the tie clause recorded in DESIGN 4/C08 (r strictly above a shared start: either range accepted, consistency demanded).',
            'DESIGN.md 4/C08'),
    'C10': (E1, 'exploration',
            'exhaustive enumeration of end-potential pairs x knot lattices (incl. integer-typed knots, non-positive end values) x r_min x constructions (Python classes, spline() modifier, as.buck4 vs long form; custom-formula ends; windows up to 11-12 A) on the real code; oracles: bit-identical end potentials outside, advertised shape from public coefficients inside, C2 joins against exact jets with a conditioning-scaled residual tolerance, agreement of constructions',
            'Every spline of the stated lattice is constructed three ways and probed at the knots, their adjacent floats and an interior lattice; the continuity conditions determine the coefficients uniquely, so a wrong matrix row, swapped argument, shift error or comparison slip violates one of them.',
            'Join residuals are judged against the backward-error bound of the documented linear solve (2e4*eps*(|A||x|+|b|) per condition, log space for the exponential spline) plus the documented finite-difference error for end potentials without analytic derivatives; no spline of the lattice is skipped.',
            'DESIGN.md 4/C10'),
    'C11': (E1, 'exploration',
            'exhaustive evaluation of decimal (step, count) lattices (steps 1e-4..0.5, up to 19999 steps; 2.4M pairs) for every two-of-three combination on both grids through ConfigParser(..).tabulation, the complete rejection and default tables, and end-to-end row counting / spacing for all 11 targets with the independent readers',
            'Every lattice point is evaluated (no sampling); cutoff = exact decimal k*step must give k+1 rows ending at cutoff; every target is written on float-awkward grids and a (cutoff, nr) lattice and its rows are counted and spaced by independent readers.',
            'Trusted: decimal arithmetic for k*step; quick tier uses the internal helper for the full lattice and cross-checks it against the public route on a sub-lattice (see evidence assumptions).',
            'DESIGN.md 4/C11'),
    'C18': (E1, 'exploration',
            'exhaustive enumeration of table-form data sets (all 4..7-point subsets of an uneven lattice x 4 shapes x 4 representations, each after a differently filled same-named table), TableReader files (all row orders x 8 formatting variants incl. no final newline / CRLF) and plot ranges x steps, on the real code',
            'Pass-through at every data point, zero (value and derivatives) outside incl. adjacent floats, xy == x/y bit-identically, derivatives against Richardson differences of the interpolant; TableReader exact data points, linear interpolant, zero outside; plot row count, abscissae and ordinates.',
            'Trusted: scipy builds the documented cubic spline; Richardson extrapolation error model.',
            'DESIGN.md 4/C18'),
    'C17': (E3, 'fault_enumeration',
            'failure-point enumeration on the real code: count pass, then one execution per failing evaluation k = 1..N for every target (Python API with counting/raising proxies and a recording sink, followed by a second write() on the same object; 14 exception classes incl. KeyboardInterrupt/SystemExit, proxies optionally inside a multi-range form; evaluations that RETURN a complex number or None; write-only and gzip sinks; multi-MiB tables failing late); potable main() in-process with a formula leaving its domain at every row of every function; real subprocess runs)',
            'All N crash points of every target are executed (N = 12..100 on the small grids used); the sink must have received nothing when write() raised, the named output file must be absent or empty, and a retry on the same object must be all-or-nothing.',
            'Failure model: an exception from a model callable / a formula outside its domain. OS-level faults (disk full, kill) are not modelled.',
            'DESIGN.md 4/C17'),
    'C13': (E2, 'model_checking',
            'stateless explicit-history exploration on the real code: every valid sequence (depth <= 4, thorough 5) of create-view / read-view / tabulate-view operations over 8-12 filters and <= 3 live views of one parsed file (views of views and caller-owned list / tuple / iterator containers included), for pair, EAM, Finnis-Sinclair and ADP files, in lock-step with a text-editing reference; plus the full file x filter x target matrix through the potable command line',
            'Every history is executed on fresh real objects and each observation (parsed lists, table bytes) is compared with the file from which the entries were deleted by hand, parsed by the same implementation; interference between views appears as a difference that depends on the other operations of the history.',
            'Relational oracle (no expected numbers). Bounded: 3 species + one unknown label, <= 3 views, depth <= 5. Every explored trace is an implementation run (traces_validated_against_impl = histories).',
            'DESIGN.md 4/C13'),
    'C14': (E2, 'model_checking',
            'stateless explicit-history exploration on the real code: every sequence (depth <= 3, thorough 4) of override / remove / add operations over an alphabet of section/key/value triples, through ConfigParser(overrides=, additional=) (list / tuple / generator arguments) and through the potable command line (both option groupings; every sequence of 4-5 overrides over three items), in lock-step with an ordered text model edited by hand',
            'Each history is replayed on the implementation and on the text model; outcomes (configuration error at the first impossible edit, parsed lists, table bytes, --list-items / --list-item-labels / --item-value) must coincide.',
            'Relational oracle; command-line phase semantics as stated in the evidence assumptions; exact repetitions of one removal excluded.',
            'DESIGN.md 4/C14'),
    'C12': (E2, 'model_checking',
            'stateless explicit-history exploration on the real code: every valid sequence (depth <= 4, thorough 5) of build / evaluate-probe / write operations over 8 models in one long-lived process, compared after every step with a pure reference obtained in a fresh process; environment dimension owned by seams: all 24 iteration orders of every library-built set (PermSet), fresh processes under 10 hash seeds for Configuration and for a potable command line with repeated options, frozen clock for xlsx; sequences of tabulations re-using one set of API objects and of potable runs into one OUTPUT_FILE; schedule exploration with real threads under a cooperative scheduler (two tabulations at once: every schedule with <= 2 pre-emptions at function evaluations; one pre-emption at every traced line of the library, also with both threads writing one tabulation object)',
            'Every history is an implementation run; any dependence of bytes or probe values on earlier builds, evaluations or writes, on set iteration order or on the hash seed is a difference from the fresh-process reference.',
            'Seams are harness-side patches (mc/seams.py). Bounded: 8 models, depth <= 5; sets built outside the four seam modules are covered by the hash-seed runs only; thread schedules: code between two scheduling points (function evaluations / traced library lines) is atomic in the model. Known finding F03 (xlsx time stamps) is listed in known_findings.json.',
            'DESIGN.md 4/C12'),
    'C15': (E1, 'exploration',
            'exhaustive enumeration on the real code of every subset of liftable literals of 5 base models x variable-naming styles (neutral, names of [Tabulation] keys set / not set by the file, names of keys of other sections) x unused extra variables x direct / nested placeholders (${NAME} through another variable, ${SECTION:KEY} whose target holds a placeholder); relational oracle against the literally substituted file',
            'Every templated file and its hand-substituted twin are parsed and tabulated by the same implementation (ConfigParser lists, output bytes, potable); any leak of a variable into another section or failure to resolve a placeholder shows as a difference.',
            'A variable is never named like a key of a section in which it is used (configparser resolves ${NAME} in the current section first; the statement speaks of keys of OTHER sections).',
            'DESIGN.md 4/C15'),
    'C16': (E1, 'exploration',
            'exhaustive application of a catalogue of ~90 malformation operators at every applicable position of 8 well-formed base models, each mutant run on the real code through Configuration.read + write and through potable main(); plus the converse over base models, all shipped example files and every documented target spelling',
            'Every single mutation of the catalogue is executed; the outcome must be a ConfigurationException subclass / exit 2 with "configuration error - " and no non-empty table; any other exception class (signature: type + innermost repository frame), an accepted malformed model, or a refused well-formed one is a violation.',
            'The catalogue defines "structurally malformed" (debatable edits are excluded and listed in DESIGN.md); single mutations only.',
            'DESIGN.md 4/C16'),
    'C20': (E1, 'exploration',
            'exhaustive application of 20 duplication operators (identical key, reversed pair in both orders of appearance, whitespace variants, other parameter names/arity, section-name spellings, table-vs-formula and table-vs-built-in name clashes, repeated sections) to every entry of 4 base models at 3 positions, on the real code through Configuration.read and potable',
            'Every duplicate must be refused with a configuration error; acceptance (with a report of what was written) or another exception class is a violation; un-duplicated controls must be accepted.',
            'pymath.* names and ADP dipole/quadrupole sections are outside the statement list.',
            'DESIGN.md 4/C20'),
    'C09': (E1, 'exploration',
            'bounded exhaustive enumeration on the real code of potential definitions of the documented grammar (nesting depth <= 2, thorough 3; 8 leaves; sum/product/pow/trans; range prefixes incl. ranges on nested modifiers) in 5 section kinds, of [Potential-Form] bodies of an expression grammar to depth 2 with two parameter vectors, of precedence probes and of formatting variants; oracle = reference evaluator of the documented semantics, bit-identity of variants, equality with the Python-API composition',
            'Every generated definition / formula body is evaluated through the tabulation objects the config machinery builds and compared with the independent evaluator at 9 separations; every formatting variant must reproduce the canonical values bit for bit.',
            'pow() with three arguments and a^b^c are undocumented and excluded; undefined sub-expressions are skipped and counted.',
            'DESIGN.md 4/C09'),
}

NOT_YET = 'check not built yet in this revision of /verif (bounded exhaustive exploration applies; see DESIGN.md section 4)'


def main():
    checks = []
    for pid in ALL:
        if pid not in CHECKS:
            continue
        eng, cat, tech, text, note, ref = CHECKS[pid]
        checks.append({
            'property_id': pid,
            'quick_cmd': './check %s --tier quick' % pid,
            'thorough_cmd': './check %s --tier thorough' % pid,
            'evidence_file': '/verif/evidence/%s.json' % pid,
            'replay_cmd_template': './check %s --replay {path}' % pid,
            'engine': eng,
            'level_claimed': {'category': cat, 'text': text, 'design_ref': ref},
            'level_note': note,
            'technique': tech,
        })
    man = {
        'version': 1,
        'setup_cmd': 'sh tools/setup.sh',
        'hooks': {
            'guard': 'ATSIM_POTENTIALS_VERIF',
            'enable': 'no hooks are compiled into /repo: all seams (set-iteration order, clock, fault injection, counting proxies) are harness-side patches applied after binding the package to the working tree (mc/boot.py, mc/seams.py)',
            'baseline_off_cmd': 'cd /repo && /venv/bin/python -m pytest -ra -q -p no:cacheprovider --timeout=900 --continue-on-collection-errors',
            'source_commits': [],
            'add_only': True,
        },
        'engines': [
            {'name': E1, 'path': 'mc/engine.py', 'serves_properties': [p for p in ALL if p in CHECKS and CHECKS[p][0] == E1],
             'kind_free_text': 'hand-written bounded-exhaustive enumerator: finite ordered case spaces dealt to 16 worker processes, every case executed on the real code, independent readers + reference model as oracle'},
            {'name': E2, 'path': 'mc/engine.py + mc/hist.py', 'serves_properties': [p for p in ALL if p in CHECKS and CHECKS[p][0] == E2],
             'kind_free_text': 'stateless explicit-history explorer: every operation sequence up to a depth bound re-executed on fresh real objects in lock-step with a reference model'},
            {'name': E3, 'path': 'mc/engine.py + mc/checks/C17.py', 'serves_properties': [p for p in ALL if p in CHECKS and CHECKS[p][0] == E3],
             'kind_free_text': 'failure-point enumerator: count pass, then one run per failing evaluation k=1..N'},
        ],
        'checks': checks,
        'not_applicable': [{'property_id': p, 'reason': NOT_YET} for p in ALL if p not in CHECKS],
        'notes': 'All checks run /venv/bin/python against /repo\'s current working tree (VERIF_REPO overrides for mutant runs); known genuine defects are listed in known_findings.json; see DESIGN.md.',
    }
    path = os.path.join(VERIF, 'MANIFEST.json')
    with open(path, 'w') as f:
        json.dump(man, f, indent=1)
    try:
        import jsonschema
        schema = json.load(open('/root/.vp/MANIFEST.schema.json'))
        jsonschema.validate(man, schema)
        print('MANIFEST.json written and valid: %d checks, %d not claimed' % (len(checks), len(man['not_applicable'])))
    except ImportError:
        print('MANIFEST.json written (jsonschema not available in this interpreter: not validated)')


if __name__ == '__main__':
    main()
