"""fresh-process reference for C12: prints {"bytes": ..., "probes": [...]} of one model (run through tools/treepy.py)"""
import sys, os, json
sys.path.insert(0, os.path.dirname(os.path.dirname(os.path.abspath(__file__))))
os.environ.setdefault('VERIF_REPO', sys.argv[0] and os.environ.get('VERIF_REPO', '/repo'))
from mc import boot, seams
seams.process_environment()
boot.bind()
from mc.checks import C12
print(json.dumps(C12.pure_reference(sys.argv[1])))
