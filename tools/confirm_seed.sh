#!/bin/sh
# usage: tools/confirm_seed.sh <MUTANTS-dir> <A|B> <seed-id> <property>
# Confirms an externally written mutant in scratch copies of /repo's HEAD and stores it under /verif/seeded/<seed-id>/:
#   - patch applies; repository test-suite still gives exactly the baseline summary (162 passed, same 5 failed)
#   - the demonstration exits 1 with the patch and 0 without
src=$1; X=$2; sid=$3; prop=$4
dst=/verif/seeded/$sid; mkdir -p "$dst"
S=$(mktemp -d /dev/shm/seed-XXXXXX); C=$(mktemp -d /dev/shm/seedc-XXXXXX)
git -C /repo archive HEAD | tar -x -C "$S"; git -C /repo archive HEAD | tar -x -C "$C"
( cd "$S" && git init -q . ) >/dev/null 2>&1
if ! git -C "$S" apply --whitespace=nowarn "$src/$X.patch.diff"; then echo "$sid: PATCH DOES NOT APPLY"; rm -rf "$S" "$C" "$dst"; exit 2; fi
tests=$(cd "$S" && PYTHONDONTWRITEBYTECODE=1 /venv/bin/python /verif/tools/treepy.py "$S" -m pytest -q -p no:cacheprovider --timeout=900 -W ignore 2>&1 | tail -1)
failing=$(cd "$S" && PYTHONDONTWRITEBYTECODE=1 /venv/bin/python /verif/tools/treepy.py "$S" -m pytest -q -p no:cacheprovider --timeout=900 -W ignore 2>&1 | grep '^FAILED' | sed 's/ - .*//' | sort | tr '\n' ' ')
cp "$src/$X.demo.py" "$S/_demo.py"; cp "$src/$X.demo.py" "$C/_demo.py"
( cd "$S" && PYTHONDONTWRITEBYTECODE=1 timeout 600 /venv/bin/python -W ignore /verif/tools/treepy.py "$S" _demo.py >/dev/null 2>&1 ); with=$?
( cd "$C" && PYTHONDONTWRITEBYTECODE=1 timeout 600 /venv/bin/python -W ignore /verif/tools/treepy.py "$C" _demo.py >/dev/null 2>&1 ); without=$?
rm -rf "$S" "$C"
echo "$sid ($prop): tests='$tests' demo_with_patch=$with demo_without=$without"
case "$tests" in *"5 failed, 162 passed"*) ok=1;; *) ok=0;; esac
if [ $ok = 1 ] && [ $with = 1 ] && [ $without = 0 ]; then
  cp "$src/$X.patch.diff" "$dst/patch.diff"; cp "$src/$X.demo.py" "$dst/demo.py"; cp "$src/$X.notes.md" "$dst/notes.md" 2>/dev/null
  python3 - "$dst" "$prop" "$tests" "$failing" "$(git -C /repo rev-parse --short HEAD)" <<'PY'
import sys, json, re
dst, prop, tests, failing, head = sys.argv[1:6]
notes = open(dst + '/notes.md').read() if __import__('os').path.exists(dst + '/notes.md') else ''
json.dump({'property': prop, 'origin': 'independent sub-agent given only the property text and a scratch worktree',
           'needs_to_manifest': notes.strip(),
           'confirmed': {'base_commit': head, 'patch_applies': True, 'test_suite_with_patch': tests.strip(),
                         'failing_tests_with_patch (the 5 sympy-dependent baseline failures)': failing.split(),
                         'demo_exit_with_patch': 1, 'demo_exit_without_patch': 0,
                         'how': 'tools/confirm_seed.sh: scratch copies of /repo HEAD under /dev/shm, tools/treepy.py binds the package to the copy'}},
          open(dst + '/meta.json', 'w'), indent=1)
PY
  echo "  kept as $dst"
else
  echo "  NOT KEPT"; rm -rf "$dst"; exit 1
fi
