#!/bin/sh
# usage: tools/mutant.sh <patch.diff> [--tests] <ID> [<ID> ...]
# Copies /repo's working tree to a scratch dir (outside /repo and /verif), applies the patch, optionally runs the
# repository's test-suite there, runs the named checks with VERIF_REPO pointing at the scratch copy, removes the copy.
patch=$(readlink -f "$1"); shift
tests=0; if [ "$1" = "--tests" ]; then tests=1; shift; fi
tier=${VERIF_TIER:-quick}
S=$(mktemp -d /dev/shm/mutant-XXXXXX)
rsync -a --exclude .git --exclude __pycache__ /repo/ "$S/" || exit 3
( cd "$S" && git init -q . >/dev/null 2>&1; git -C "$S" apply --whitespace=nowarn "$patch" ) || { echo "PATCH-DOES-NOT-APPLY $patch"; rm -rf "$S"; exit 3; }
if [ $tests = 1 ]; then
  ( cd "$S" && PYTHONDONTWRITEBYTECODE=1 /venv/bin/python /verif/tools/treepy.py "$S" -m pytest -q -p no:cacheprovider --timeout=900 -W ignore 2>&1 | tail -1 )
fi
rc=0
for id in "$@"; do
  VERIF_REPO="$S" /verif/check "$id" --tier "$tier" > "$S/.out" 2>&1; r=$?
  echo "== $id exit=$r: $(grep -c '^VIOLATION' "$S/.out") violation line(s); $(grep -E '^(VIOLATION|BROKEN|  signature|  first)' "$S/.out" | head -4 | tr '\n' '|' | cut -c1-420)"
  [ $r -ne 0 ] && rc=1
done
rm -rf "$S"
exit $rc
