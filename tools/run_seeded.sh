#!/bin/sh
# usage: tools/run_seeded.sh [quick|thorough] [seed-id ...]
# Runs every seeded mutant (seeded/<id>/patch.diff) against the check of the property it was written for, on a scratch
# copy of /repo (never /repo itself), and writes seeded/RESULTS.md.  16 scratch copies are processed in parallel.
cd "$(dirname "$0")/.." || exit 1
tier=${1:-quick}; [ $# -gt 0 ] && shift
ids="$@"; [ -z "$ids" ] && ids=$(ls seeded | grep -E '^C[0-9]+-' | sort)
out=$(mktemp -d /dev/shm/seeded-XXXXXX)
run_one() {
  id=$1; prop=${id%%-*}
  S=$(mktemp -d /dev/shm/mut-XXXXXX)
  rsync -a --exclude .git --exclude __pycache__ /repo/ "$S/"
  ( cd "$S" && git init -q . >/dev/null 2>&1; git -C "$S" apply --whitespace=nowarn /verif/seeded/$id/patch.diff ) 2>/dev/null || { echo "$id|$prop|PATCH-DOES-NOT-APPLY||" > $out/$id; rm -rf "$S"; return; }
  t0=$(date +%s)
  # seeded/<id>/checks (optional): the mutant breaks the statement of another property than the one its author was given
  for p in $(cat /verif/seeded/$id/checks 2>/dev/null || echo $prop); do
    VERIF_REPO="$S" VERIF_NPROC=4 /verif/check "$p" --tier "$tier" > "$S/.out" 2>&1; rc=$?
    prop="$p"; [ $rc -ne 0 ] && break
  done
  t1=$(date +%s)
  sigs=$(grep '^  signature:' "$S/.out" | sed 's/  signature: //; s/ (.*//' | head -4 | tr '\n' ';')
  echo "$id|$prop|$rc|$((t1-t0))s|$sigs" > $out/$id
  rm -rf "$S"
}
n=0
for id in $ids; do run_one $id & n=$((n+1)); [ $((n % 8)) -eq 0 ] && wait; done; wait
{
  echo "# Seeded mutants vs. checks (tier: $tier, /repo HEAD $(git -C /repo rev-parse --short HEAD), $(date -u +%Y-%m-%dT%H:%MZ))"
  echo
  echo "Each mutant was written by an independent sub-agent that saw only the property text and a scratch worktree; it passes the"
  echo "repository's own test-suite (162 passed / same 5 sympy failures) and has a demonstration that fails with it (see meta.json)."
  echo "exit 1 = the check printed a VIOLATION line (detected); exit 0 = missed."
  echo
  echo "| mutant | check run | check exit | wall | first violation signatures |"
  echo "|---|---|---|---|---|"
  for id in $ids; do IFS='|' read a b c d e < $out/$id; echo "| $a | $b | $c | $d | $e |"; done
} > seeded/RESULTS_$tier.md
rm -rf $out
cat seeded/RESULTS_$tier.md
