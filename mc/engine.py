"""E1/E2/E3 driver: bounded-exhaustive enumeration of cases over a pool of worker processes.

A check module provides
    PROPERTY, LEVEL, RULE, ASSUMPTIONS
    cases(tier)      -> finite, ordered (simplest first) iterable of JSON-able case descriptors
    run_case(case)   -> dict(outcome=str|list, nontrivial=bool|int, evals=int,
                             violations=[dict(sig=, msg=, detail=)],
                             states=[..], transitions=int, traces=int)      (last three optional)
Every case is executed (no sampling).  VERIF_SEED only permutes the order in which chunks of
cases are handed to the workers; results are re-sorted by case index, so the verdict and the
first reported counter-example are identical for every seed.
"""
import os, sys, json, time, signal, traceback, random, hashlib, importlib
import concurrent.futures as cf
import multiprocessing as mp

from . import boot

NPROC = int(os.environ.get('VERIF_NPROC', '0')) or min(16, os.cpu_count() or 4)
CASE_TIMEOUT = float(os.environ.get('VERIF_CASE_TIMEOUT', '600'))     # (generous: million-row tables on a loaded machine; a real hang is still reported)


class CaseTimeout(Exception):
    pass


def _alarm(signum, frame):
    raise CaseTimeout()


def repo_frame(tb):
    """innermost traceback frame that lies inside the tree under test -> 'module.function'"""
    best = None
    for fs in traceback.extract_tb(tb):
        fn = os.path.abspath(fs.filename)
        if fn.startswith(boot.REPO + os.sep):
            mod = os.path.relpath(fn, boot.REPO)[:-3].replace(os.sep, '.')
            if mod.endswith('.__init__'):
                mod = mod[:-9]
            best = '%s.%s' % (mod, fs.name)
    return best or 'outside-repo'


def exc_sig(e):
    return 'exception:%s@%s' % (type(e).__name__, repo_frame(e.__traceback__))


def run_one(mod, case, timeout=None):
    """Run a single case in this process with a wall-clock limit; never raises."""
    timeout = timeout or getattr(mod, 'CASE_TIMEOUT', CASE_TIMEOUT)
    old = signal.signal(signal.SIGALRM, _alarm)
    signal.setitimer(signal.ITIMER_REAL, timeout)
    try:
        res = mod.run_case(case)
    except CaseTimeout:
        res = dict(outcome='timeout', nontrivial=False, evals=1,
                   violations=[dict(sig='hang', msg='case did not finish within %gs' % timeout, detail={})])
    except BaseException as e:  # noqa  -- an exception escaping the library through the harness
        if isinstance(e, (KeyboardInterrupt,)):
            raise
        res = dict(outcome='exception', nontrivial=False, evals=1,
                   violations=[dict(sig=exc_sig(e), msg='%s: %s' % (type(e).__name__, e),
                                    detail={'traceback': traceback.format_exc()[-3000:]})])
    finally:
        signal.setitimer(signal.ITIMER_REAL, 0)
        signal.signal(signal.SIGALRM, old)
    res.setdefault('violations', [])
    res.setdefault('evals', 1)
    res.setdefault('nontrivial', False)
    res.setdefault('outcome', 'ok')
    return res


_MOD = None


def _init_worker(modname):
    global _MOD
    boot.bind()
    _MOD = importlib.import_module(modname)
    if hasattr(_MOD, 'init_worker'):
        _MOD.init_worker()


def _work_chunk(chunk):
    out = []
    for idx, case in chunk:
        r = run_one(_MOD, case)
        r['index'] = idx
        out.append(r)
    return out


_ROOT = [None]


def _scratch_root():
    """one scratch tree per run, owned by the main process: workers and fresh processes create their directories inside it (VERIF_SCRATCH_ROOT)
    and the main process removes the tree when it exits"""
    if _ROOT[0] is None or not os.path.isdir(_ROOT[0]):
        import tempfile, shutil, atexit
        base = '/dev/shm' if os.path.isdir('/dev/shm') and os.access('/dev/shm', os.W_OK) else None
        _ROOT[0] = tempfile.mkdtemp(prefix='verif-run-', dir=base)
        os.environ['VERIF_SCRATCH_ROOT'] = _ROOT[0]
        pid = os.getpid()
        atexit.register(lambda: os.getpid() == pid and shutil.rmtree(_ROOT[0], True))
    return _ROOT[0]


def explore(modname, tier, seed, budget_s=None, progress=True):
    """Enumerate every case of the module for the tier.  Returns (summary dict, violations list)."""
    boot.bind()
    _scratch_root()
    mod = importlib.import_module(modname)
    t0 = time.time()
    cases = list(mod.cases(tier))
    n = len(cases)
    nproc = min(NPROC, max(1, n))
    chunksize = getattr(mod, 'CHUNK', None) or max(1, min(64, n // (nproc * 8) or 1))
    chunks = []
    for i in range(0, n, chunksize):
        chunks.append([(j, cases[j]) for j in range(i, min(n, i + chunksize))])
    order = list(range(len(chunks)))
    random.Random(seed).shuffle(order)
    results = [None] * n
    capped = False
    died = []
    ctx = mp.get_context('fork')
    with cf.ProcessPoolExecutor(max_workers=nproc, mp_context=ctx, initializer=_init_worker,
                                initargs=(modname,)) as ex:
        futs = {}
        for ci in order:
            futs[ex.submit(_work_chunk, chunks[ci])] = ci
        done = 0
        try:
            for fut in cf.as_completed(futs):
                ci = futs[fut]
                try:
                    for r in fut.result():
                        results[r['index']] = r
                except cf.process.BrokenProcessPool:
                    died.append(ci)
                done += 1
                if budget_s and time.time() - t0 > budget_s and done < len(chunks):
                    capped = True
                    for f in futs:
                        f.cancel()
                    break
        except cf.process.BrokenProcessPool:
            died.extend(ci for f, ci in futs.items() if not f.done())
    # A dying worker (interpreter crash, the kernel's out-of-memory killer on a loaded machine) breaks the whole pool: every chunk that was
    # still pending is lost with it.  Round 2 re-runs the lost chunks in a fresh pool (a transient death does not recur); what is lost AGAIN
    # is re-run one case per fresh process - several of them side by side - so that the culprit is identified.
    lost = sorted(set(died))
    if lost:
        again = []
        with cf.ProcessPoolExecutor(max_workers=nproc, mp_context=ctx, initializer=_init_worker, initargs=(modname,)) as ex2:
            futs2 = {ex2.submit(_work_chunk, chunks[ci]): ci for ci in lost}
            try:
                for fut in cf.as_completed(futs2):
                    try:
                        for r in fut.result():
                            results[r['index']] = r
                    except cf.process.BrokenProcessPool:
                        again.append(futs2[fut])
            except cf.process.BrokenProcessPool:
                again.extend(ci for f, ci in futs2.items() if not f.done())
        singles = [(idx, case) for ci in sorted(set(again)) for idx, case in chunks[ci] if results[idx] is None]

        def isolated(item):
            idx, case = item
            with cf.ProcessPoolExecutor(max_workers=1, mp_context=ctx, initializer=_init_worker, initargs=(modname,)) as ex1:
                try:
                    return ex1.submit(_work_chunk, [(idx, case)]).result()[0]
                except cf.process.BrokenProcessPool:
                    return dict(index=idx, outcome='worker-died', nontrivial=False, evals=1,
                                violations=[dict(sig='worker-process-died', msg='interpreter died while running the case', detail={})])
        if singles:
            with cf.ThreadPoolExecutor(max_workers=max(1, nproc // 2)) as tp:
                for r in tp.map(isolated, singles):
                    results[r['index']] = r
    summary = aggregate(mod, cases, results, tier, seed, time.time() - t0, capped)
    return mod, cases, results, summary


def aggregate(mod, cases, results, tier, seed, wall, capped):
    evals = 0
    nontriv = 0
    outcomes = {}
    states = set()
    transitions = 0
    traces = 0
    executed = 0
    seen_desc = set()
    for c, r in zip(cases, results):
        if r is None:
            continue
        executed += 1
        evals += int(r.get('evals', 1))
        key = hashlib.sha1(json.dumps(c, sort_keys=True, default=str).encode()).digest()
        fresh = key not in seen_desc
        seen_desc.add(key)
        nt = r.get('nontrivial', False)
        if fresh:
            nontriv += int(nt) if not isinstance(nt, bool) else (1 if nt else 0)
        oc = r.get('outcome', 'ok')
        if isinstance(oc, dict):
            for o, k in oc.items():
                outcomes[o] = outcomes.get(o, 0) + k
        else:
            for o in (oc if isinstance(oc, (list, tuple)) else [oc]):
                outcomes[o] = outcomes.get(o, 0) + 1
        for s in r.get('states', ()):
            states.add(s if isinstance(s, str) else json.dumps(s, sort_keys=True))
        transitions += int(r.get('transitions', 0))
        traces += int(r.get('traces', 0))
    cov = dict(evaluations=evals, cases=len(cases), cases_executed=executed, distinct_cases=len(seen_desc),
               distinct_nontrivial=nontriv, rule=mod.RULE,
               exhaustive=(not capped and executed == len(cases)),
               outcome_classes=dict(sorted(outcomes.items(), key=lambda kv: -kv[1])[:40]),
               distinct_outcome_classes=len(outcomes))
    if capped:
        cov['cap'] = 'time budget reached: %d of %d cases executed' % (executed, len(cases))
    if states or transitions:
        cov.update(states=max(1, len(states)), transitions=max(1, transitions), traces_validated_against_impl=traces)
    samples = []
    if cases:
        picks = sorted(set([0, len(cases) // 3, (2 * len(cases)) // 3, len(cases) - 1]))
        samples = [cases[i] for i in picks]
    cov['samples'] = json.loads(json.dumps(samples, default=str))
    return dict(coverage=cov, wall=wall)
