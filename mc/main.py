"""./check <ID> [--tier quick|thorough] [--replay path]

exit 0: property held on everything explored (KNOWN-FINDING lines allowed)
exit 1: at least one `VIOLATION property=<id> replay=<path>` line
exit 2: BROKEN (library does not import / harness not usable) - never a VIOLATION line
"""
import os, sys, json, time, hashlib, argparse, importlib

HERE = os.path.dirname(os.path.abspath(__file__))
VERIF = os.path.dirname(HERE)
sys.path.insert(0, VERIF)

from mc import boot, engine  # noqa: E402


def load_known():
    p = os.path.join(VERIF, 'known_findings.json')
    if not os.path.exists(p):
        return []
    with open(p) as f:
        return json.load(f).get('findings', [])


def sig_hash(sig):
    return hashlib.sha1(sig.encode()).hexdigest()[:12]


def write_replay(prop, sig, case, viol, note=None):
    d = os.path.join(VERIF, 'replay', prop)
    os.makedirs(d, exist_ok=True)
    path = os.path.join(d, sig_hash(sig) + '.json')
    with open(path, 'w') as f:
        json.dump(dict(property=prop, signature=sig, message=viol.get('msg'), case=case,
                       detail=viol.get('detail'), repo=boot.REPO, note=note,
                       how_to_replay='cd /verif && VERIF_REPO=%s ./check %s --replay %s' % (boot.REPO, prop, path)),
                  f, indent=1, default=str)
    return path


def confirmed_replay(prop, sig, candidates):
    """write the artefact for the first candidate case that reproduces the violation when replayed ALONE in a fresh
    process (workers are long-lived, so a violation may depend on the worker's earlier cases); if none does, the
    artefact of the first candidate is kept and flagged as history dependent."""
    import subprocess
    for c, v in candidates[:6]:
        path = write_replay(prop, sig, c, v)
        try:
            r = subprocess.run([os.path.join(VERIF, 'check'), prop, '--replay', path], capture_output=True, timeout=300,
                               env=dict(os.environ, VERIF_REPO=boot.REPO))
            if r.returncode == 1:
                return path, True
        except Exception:
            pass
    c, v = candidates[0]
    return write_replay(prop, sig, c, v, note='history dependent: this case violated the property only after the earlier cases '
                        'run by the same long-lived worker process; it does not reproduce when replayed alone'), False


def report(prop, mod, cases, results, summary, tier, seed, level):
    known = [k for k in load_known() if k.get('property') == prop]
    by_sig = {}
    cands = {}
    total_viol = 0
    for c, r in zip(cases, results):
        if r is None:
            continue
        for v in r.get('violations', []):
            total_viol += 1
            by_sig.setdefault(v['sig'], (c, v, 0))
            cc, vv, k = by_sig[v['sig']]
            by_sig[v['sig']] = (cc, vv, k + 1)
            cl = cands.setdefault(v['sig'], [])
            if len(cl) < 3:
                cl.append((c, v))
            else:               # first three and the last three occurrences
                if len(cl) >= 6:
                    del cl[3]
                cl.append((c, v))
    unlisted = 0
    known_hit = 0
    lines = []
    for sig, (c, v, k) in by_sig.items():
        kf = [e for e in known if e.get('status') == 'known' and e.get('signature') == sig]
        if kf:
            known_hit += 1
            lines.append('KNOWN-FINDING: property=%s %s [signature %s; %d occurrence(s)]' % (prop, kf[0].get('what', ''), sig, k))
        else:
            unlisted += 1
            if unlisted <= 12:
                path, alone = confirmed_replay(prop, sig, cands[sig])
            else:
                path, alone = write_replay(prop, sig, c, v), True
            lines.append('VIOLATION property=%s replay=%s' % (prop, path))
            if not alone:
                lines.append('  (history dependent: reproduces only after earlier cases in the same process)')
            lines.append('  signature: %s (%d occurrence(s))' % (sig, k))
            lines.append('  first: %s' % (str(v.get('msg'))[:600]))
    cov = summary['coverage']
    ev = dict(property_id=prop, tier=tier, seed=seed, level=level, coverage=cov,
              assumptions=list(getattr(mod, 'ASSUMPTIONS', [])), wall_s=round(summary['wall'], 3),
              violations=unlisted)
    head, diff = boot.tree_id()
    ev['coverage']['tree'] = dict(repo=boot.REPO, head=head, diff=diff)
    ev['coverage']['violation_signatures'] = len(by_sig)
    ev['coverage']['known_findings_matched'] = known_hit
    ev['coverage']['bounds'] = getattr(mod, 'BOUNDS', {}).get(tier, '')
    os.makedirs(os.path.join(VERIF, 'evidence'), exist_ok=True)
    evpath = os.path.join(VERIF, 'evidence', prop + '.json')
    if boot.REPO == '/repo' or os.environ.get('VERIF_WRITE_EVIDENCE'):
        with open(evpath, 'w') as f:
            json.dump(ev, f, indent=1, default=str)
    print('%s tier=%s seed=%d cases=%d executed=%d evaluations=%d nontrivial=%d outcome_classes=%d exhaustive=%s wall=%.1fs'
          % (prop, tier, seed, cov['cases'], cov['cases_executed'], cov['evaluations'], cov['distinct_nontrivial'],
             cov['distinct_outcome_classes'], cov['exhaustive'], summary['wall']))
    if 'states' in cov:
        print('  states=%d transitions=%d traces_validated_against_impl=%d' % (cov['states'], cov['transitions'], cov['traces_validated_against_impl']))
    for l in lines:
        print(l)
    if not unlisted:
        print('%s: OK (%d violation signature(s), all listed as known findings)' % (prop, len(by_sig)) if by_sig else '%s: OK' % prop)
    return 1 if unlisted else 0


def replay(prop, modname, path):
    boot.bind()
    mod = importlib.import_module(modname)
    if hasattr(mod, 'init_worker'):
        mod.init_worker()
    with open(path) as f:
        art = json.load(f)
    r = engine.run_one(mod, art['case'])
    print('replaying %s case from %s against %s' % (prop, path, boot.REPO))
    print(json.dumps(art['case'], indent=1, default=str)[:4000])
    if r['violations']:
        for v in r['violations']:
            print('VIOLATION property=%s replay=%s' % (prop, path))
            print('  signature: %s' % v['sig'])
            print('  %s' % str(v.get('msg'))[:2000])
        return 1
    print('%s: replayed case holds (outcome %s)' % (prop, r.get('outcome')))
    return 0


def main(argv=None):
    ap = argparse.ArgumentParser()
    ap.add_argument('prop')
    ap.add_argument('--tier', default=os.environ.get('VERIF_TIER') or 'quick', choices=['quick', 'thorough'])
    ap.add_argument('--replay')
    ap.add_argument('--budget', type=float, default=None)
    a = ap.parse_args(argv)
    prop = a.prop.upper()
    modname = 'mc.checks.' + prop
    try:
        seed = int(os.environ.get('VERIF_SEED', '0') or 0)
    except ValueError:
        seed = 0
    if a.replay:
        return replay(prop, modname, a.replay)
    boot.bind()
    mod = importlib.import_module(modname)
    budget = a.budget or getattr(mod, 'BUDGET', {}).get(a.tier)
    mod, cases, results, summary = engine.explore(modname, a.tier, seed, budget_s=budget)
    if hasattr(mod, 'post'):
        mod.post(cases, results, summary, a.tier, seed)
    return report(prop, mod, cases, results, summary, a.tier, seed, mod.LEVEL)


if __name__ == '__main__':
    sys.exit(main())
