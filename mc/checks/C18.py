"""C18 - tabulated input is reproduced at its data points and is zero outside its range."""
import io, itertools, math, os, tempfile

from .. import routes as R
from ..refmodel import expr as X

PROPERTY = 'C18'
LEVEL = 'exploration'
RULE = ('cases = (a) [Table-Form]/Cubic_Spline_Table_Form: every strictly increasing 4..7-point subset pattern of an uneven 9-point x '
        'lattice (+ 50- and 200-point grids) x 4 y shapes x {x/y, xy, xy with line continuation, class} x query points {every data '
        'point, midpoints, adjacent floats of both ends, far outside}, each preceded by a differently-filled table of the same name '
        'in the same process; (b) TableReader: every file of <= 4 rows of a 4-row pool in every row order x 8 formatting variants '
        '(comments, blanks, tabs, extra columns, CRLF, with/without final newline); (c) plot/plotToFile/plotPotentialObject(ToFile) '
        'x 5x5 ranges x steps in {1,2,3,10,17}; non-trivial = every case (data sets have distinct, non-collinear y values)')
RULE += '; wrapped xy layouts with 3 / 5 values per line; 257- and 1000-point tables; y values of magnitude 1e-19 and 1e12; reader look-ups in descending / interleaved / outside-then-inside order; numpy-returning callables and numpy bounds for the plot functions; number spellings (.5, 15e-1) in reader files; reader rows that carry a trailing # annotation; the DatReader behind TableReader with input / output converters'
ASSUMPTIONS = [
    'the interpolant of a table form is whatever cubic spline scipy builds: only pass-through, zero outside, xy == x/y and derivative consistency are demanded',
    'derivative consistency: deriv/deriv2 compared with Richardson-extrapolated central differences of the callable itself (tolerance 1e-6 x scale), away from knots',
    'TableReader: rows are sorted by x before use; duplicate x values are outside the alphabet',
]
RULE += '; plotToFile / plotPotentialObjectToFile called twice on one open file leave the rows of both calls; copy.copy / copy.deepcopy / pickle round trips of a table form are the same function inside and outside the data range; reader files of 700..60000 rows on regular grids printed with 3..6 decimals (step not a multiple of the resolution), with 1 % jitter and one wide gap: every row and every third interval'
BOUNDS = {'quick': '466 x-subsets x 4 shapes (rotating representations); TableReader 64 row lists x 8 variants', 'thorough': 'all representations for every data set'}

XL = [0.0, 0.3, 0.7, 1.0, 1.6, 2.1, 3.0, 4.2, 5.0]


def yshape(kind, x):
    if kind == 0:
        return 2.0 - 0.75 * x
    if kind == 1:
        return 0.5 * x * x - 1.2 * x + 3.0
    if kind == 2:
        return math.sin(2.3 * x) * (1 + 0.3 * x) + 0.1
    if kind == 4:
        return 1.6e-19 * (math.exp(-1.3 * x) - 0.4 / (1.0 + x))        # SI-scale values (J): tiny but meaningful
    if kind == 5:
        return 3.0e12 * (0.5 * x * x - 1.2 * x + 3.0)                  # large values
    return -1.5 + 4.0 / (1.0 + x) - 0.2 * x


def cases(tier):
    out = []
    k = 0
    for n in (4, 5, 6, 7):
        for sub in itertools.combinations(range(9), n):
            for ys in range(6):
                k += 1
                allreps = ['xy_split', 'xy', 'xy_cont', 'class', 'xy_cont3', 'xy_cont5']
                reps = allreps if tier != 'quick' else [allreps[k % 6], allreps[(k + 3) % 6]]
                for rep in reps:
                    out.append(dict(kind='table', x=[XL[i] for i in sub], ys=ys, rep=rep))
    for npt in (50, 200, 257, 1000):
        x, v = [], 0.1
        for i in range(npt):
            v += 0.02 + 0.03 * ((i * 7) % 5)
            x.append(round(v, 6))
        for ys in range(4):
            for rep in ('xy_split', 'xy', 'class'):
                out.append(dict(kind='table', x=x, ys=ys, rep=rep))
    pool = [(1.0, 10.0), (2.0, 20.0), (3.0, 35.0), (4.5, -2.5)]
    for n in (1, 2, 3, 4):
        for rows in itertools.permutations(range(4), n):
            for variant in range(13):          # (variant 11: annotated data rows; 12: the underlying DatReader with unit converters; variant 10: a header line that the caller has read before handing the file object over)
                out.append(dict(kind='reader', rows=list(rows), variant=variant))
    # files larger than any read-ahead buffer: 60 000 and 200 000 rows (1.7 MB, 5.9 MB)
    for nrows in (60000, 200000):
        out.append(dict(kind='reader-big', nrows=nrows))
    # regular grids whose step is NOT a multiple of the printed resolution (0..10 in n rows, x printed with few decimals): the printed
    # spacings differ from one another in the last digit; also a grid that is almost regular (1 % jitter) and one with a single wide gap
    for nrows, fmt in ((12000, '%.6f'), (3000, '%.5f'), (60000, '%f'), (700, '%.4f'), (12000, '%.3f')):
        out.append(dict(kind='reader-big', nrows=nrows, fmt=fmt, span=10.0))
    for nrows in (500, 4000):
        out.append(dict(kind='reader-big', nrows=nrows, fmt='%.6f', span=10.0, jitter=True))
    lows = [-2.0, 0.0, 0.1, 1.0, 7.3]
    spans = [0.5, 1.0, 2.5, 9.9, 30.0]
    for lo in lows:
        for sp in spans:
            for steps in (1, 2, 3, 10, 17):
                for fn in ('plotToFile', 'plot', 'plotPotentialObjectToFile', 'plotPotentialObject'):
                    out.append(dict(kind='plot', lo=lo, hi=lo + sp, steps=steps, fn=fn))
                # callables built on numpy / scipy return numpy scalars or 0-d arrays; bounds may come from a numpy array
                for ret in ('numpy-scalar', 'array0d', 'numpy-bounds'):
                    out.append(dict(kind='plot', lo=lo, hi=lo + sp, steps=steps, fn=('plotToFile', 'plot')[steps % 2], ret=ret))
    return out


def V(viol, sig, msg):
    viol.append(dict(sig=sig, msg=msg, detail={}))


# ----------------------------------------------------------------------------------------------------- table forms
def table_ini(name, x, y, rep):
    head = '[Tabulation]\ntarget : LAMMPS\nnr : 3\ncutoff : 1.0\n\n[Pair]\nA-B : >=0 %s\n\n[Table-Form:%s]\n' % (name, name)
    if rep == 'xy_split':
        return head + 'interpolation : cubic_spline\nx : %s\ny : %s\n' % (' '.join(X.num(v) for v in x), ' '.join(X.num(v) for v in y))
    if rep == 'xy':
        return head + 'xy : %s\n' % ' '.join('%s %s' % (X.num(a), X.num(b)) for a, b in zip(x, y))
    if rep in ('xy_cont3', 'xy_cont5'):
        # continuation lines that hold an odd number of values: pairs straddle the line breaks
        vals = [X.num(v) for ab in zip(x, y) for v in ab]
        w = 3 if rep == 'xy_cont3' else 5
        chunks = [' '.join(vals[i:i + w]) for i in range(0, len(vals), w)]
        return head + 'xy : ' + chunks[0] + '\n' + ''.join('     %s\n' % c for c in chunks[1:])
    lines = ['%s %s' % (X.num(a), X.num(b)) for a, b in zip(x, y)]
    return head + 'xy : ' + lines[0] + '\n' + ''.join('     %s\n' % l for l in lines[1:])


def build_table(x, y, rep, name='tf'):
    if rep == 'class':
        from atsim.potentials.tableforms import Cubic_Spline_Table_Form
        return Cubic_Spline_Table_Form(x, y)
    tab = R.config_read(table_ini(name, x, y, rep))
    return tab.potentials[0].potentialFunction


def richardson(f, r, h):
    d = lambda hh: (f(r + hh) - f(r - hh)) / (2 * hh)   # noqa
    return (4 * d(h / 2) - d(h)) / 3.0


def run_table(case):
    viol = []
    x = case['x']
    y = [yshape(case['ys'], v) for v in x]
    # history prefix: a table of the same name with other data built first in this process
    y0 = [yshape((case['ys'] + 1) % 4, v) + 7.0 for v in x]
    build_table([v + 0.25 for v in x], y0, case['rep'] if case['rep'] != 'class' else 'xy')
    f = build_table(x, y, case['rep'])
    g = build_table(x, y, 'xy' if case['rep'] != 'xy' else 'xy_split')
    scale = max(abs(v) for v in y) * (1.0 + 1e-3) + (1.0 if case['ys'] < 4 else 0.0)
    n = 0
    for xi, yi in zip(x, y):
        n += 1
        if abs(f(xi) - yi) > 1e-9 * scale:
            V(viol, 'pass-through', 'table %r: f(%r) = %r, data point %r' % (case['rep'], xi, f(xi), yi))
            return viol, n
    lo, hi = x[0], x[-1]
    for q in (math.nextafter(lo, -math.inf), lo - 1e-9, lo - 0.5, lo - 100.0, math.nextafter(hi, math.inf), hi + 1e-9, hi + 0.5, hi + 1e3):
        n += 1
        for nm, fn in (('value', f), ('deriv', f.deriv), ('deriv2', f.deriv2)):
            if fn(q) != 0.0:
                V(viol, 'nonzero-outside', 'table %r on [%r, %r]: %s(%r) = %r outside the data range' % (case['rep'], lo, hi, nm, q, fn(q)))
                return viol, n
    qs = [0.5 * (a + b) for a, b in zip(x[:-1], x[1:])] + [a + 0.31 * (b - a) for a, b in zip(x[:-1], x[1:])] + list(x)
    for q in qs:
        n += 1
        if (f(q), f.deriv(q), f.deriv2(q)) != (g(q), g.deriv(q), g.deriv2(q)):
            V(viol, 'xy-vs-x/y', 'at %r the xy and x/y forms of one data set differ: %r vs %r' % (q, (f(q), f.deriv(q), f.deriv2(q)), (g(q), g.deriv(q), g.deriv2(q))))
            return viol, n
    # copies of the form (copy.copy, copy.deepcopy, a pickle round trip: what multiprocessing and caches on disk do) are the same function
    import copy, pickle
    outside = [math.nextafter(lo, -math.inf), lo - 0.5, lo - 100.0, math.nextafter(hi, math.inf), hi + 0.5, hi + 1e3]
    for how, mk in (('copy.copy', copy.copy), ('copy.deepcopy', copy.deepcopy), ('pickle round trip', lambda o: pickle.loads(pickle.dumps(o)))):
        try:
            dup = mk(f)
        except Exception:  # noqa  (an object that refuses to be copied this way says so; nothing is tabulated from it)
            continue
        for q in qs + outside:
            n += 1
            a3, b3 = (dup(q), dup.deriv(q), dup.deriv2(q)), (f(q), f.deriv(q), f.deriv2(q))
            if a3 != b3:
                V(viol, 'copy-differs', 'table %r: the %s of the form gives (value, deriv, deriv2) = %r at %r, the form itself %r' % (case['rep'], how, a3, q, b3))
                return viol, n
    gap = min(b - a for a, b in zip(x[:-1], x[1:]))
    for a, b in zip(x[:-1], x[1:]):
        q = a + 0.37 * (b - a)
        h = 0.2 * min(q - a, b - q)
        n += 1
        d1 = richardson(f, q, h)
        d2 = richardson(f.deriv, q, h)
        sc1 = scale / gap
        if abs(f.deriv(q) - d1) > 1e-6 * sc1 + 1e-9:
            V(viol, 'deriv-of-interpolant', 'deriv(%r) = %r but the interpolant has slope %r there' % (q, f.deriv(q), d1))
            return viol, n
        if abs(f.deriv2(q) - d2) > 1e-6 * sc1 / gap + 1e-9:
            V(viol, 'deriv2-of-interpolant', 'deriv2(%r) = %r but the interpolant slope changes at rate %r' % (q, f.deriv2(q), d2))
            return viol, n
    return viol, n


# ----------------------------------------------------------------------------------------------------- TableReader
POOL = [(1.0, 10.0), (2.0, 20.0), (3.0, 35.0), (4.5, -2.5)]


POOL2 = [(0.5, -0.25), (1.5, 0.125), (2.0, 3.0), (2.75, -0.5)]
SPELL = {8: ['.5 -.25', '1.5 +.125', '2. 3.', '2.75e0 -5E-1'], 9: ['+.5 -2.5e-1', '15e-1 .125', '+2 3', '275E-2 -.5']}


def pool_of(variant):
    return POOL2 if variant in (8, 9) else POOL


def reader_text(rows, variant):
    if variant in (10, 12):
        return reader_text(rows, 0)
    if variant == 11:
        return '\n'.join(('%g %g' % POOL[k]) + ('   # minimum' if i % 2 == 0 else ' # row %d  #' % i) for i, k in enumerate(rows)) + '\n'
    if variant >= 8:
        return '\n'.join(SPELL[variant][k] for k in rows) + '\n'
    ls = []
    for i, k in enumerate(rows):
        xv, yv = POOL[k]
        xs, ys = repr(xv) if variant % 2 else ('%g' % xv), repr(yv) if variant % 2 else ('%g' % yv)
        if variant == 0:
            ls.append('%s %s' % (xs, ys))
        elif variant == 1:
            ls.append('%s\t%s' % (xs, ys))
        elif variant == 2:
            ls.append('  %s    %s  ' % (xs, ys))
        elif variant == 3:
            ls.append('%s %s 99.0 extra' % (xs, ys))
        elif variant == 4:
            ls.extend(['# comment %d' % i, '%s %s' % (xs, ys), ''])
        elif variant == 5:
            ls.append('%s %s' % (xs, ys))
        elif variant == 6:
            ls.append('%s %s' % (xs, ys))
        else:
            ls.extend(['', '   ', '%s \t %s' % (xs, ys)])
    if variant == 5:
        return '\n'.join(ls)                   # no final newline
    if variant == 6:
        return '\r\n'.join(ls) + '\r\n'        # CRLF
    if variant == 7:
        return '\n'.join(ls)                   # blank lines and no final newline
    return '\n'.join(ls) + '\n'


def run_reader(case):
    from atsim.potentials import TableReader
    viol = []
    text = reader_text(case['rows'], case['variant'])
    if case['variant'] == 10:
        # the file starts with a header line ("npoints  spacing") that the caller consumes; the reader gets the file object positioned after it
        fobj = io.StringIO('%d 0.25\n' % len(case['rows']) + text, newline='')
        fobj.readline()
        t = TableReader(fobj)
    elif case['variant'] == 12:
        # the reader class behind TableReader, with its unit converters (increasing in x): the table is the converted one
        from atsim.potentials._tablereaders import DatReader
        t = DatReader(io.StringIO(text, newline=''), inputConvert=lambda x: 0.5 * x + 0.25, outputConvert=lambda y: 2.0 * y + 1.0).getValue
    else:
        t = TableReader(io.StringIO(text, newline=''))
    data = sorted(pool_of(case['variant'])[k] for k in case['rows'])
    if case['variant'] == 12:
        data = [(0.5 * a + 0.25, 2.0 * b + 1.0) for a, b in data]
    n = 0
    for xv, yv in data:
        n += 1
        if t(xv) != yv:
            V(viol, 'reader-data-point', 'file %r: f(%r) = %r, tabulated %r' % (text, xv, t(xv), yv))
            return viol, n
    for (x0, y0), (x1, y1) in zip(data[:-1], data[1:]):
        for fr in (0.25, 0.5, 0.9):
            q = x0 + fr * (x1 - x0)
            want = y0 + (y1 - y0) * (q - x0) / (x1 - x0)
            got = t(q)
            n += 1
            if abs(got - want) > 1e-12 * (abs(want) + 1.0) or not (min(y0, y1) <= got <= max(y0, y1)):
                V(viol, 'reader-interpolation', 'file %r: f(%r) = %r, linear interpolant %r' % (text, q, got, want))
                return viol, n
    # a reader that offers derivatives offers those of its own interpolant (none is offered today; unevenly spaced rows)
    for name in ('deriv', 'deriv2'):
        if hasattr(t, name):
            for (x0, y0), (x1, y1) in zip(data[:-1], data[1:]):
                q = x0 + 0.4 * (x1 - x0)
                want = (y1 - y0) / (x1 - x0) if name == 'deriv' else 0.0
                got = getattr(t, name)(q)
                n += 1
                if abs(got - want) > 1e-9 * (abs(want) + 1.0):
                    V(viol, 'reader-' + name, 'file %r: %s(%r) = %r, the interpolant between (%r, %r) and (%r, %r) has %r' % (text, name, q, got, x0, y0, x1, y1, want))
                    return viol, n
    for q in (data[0][0] - 0.5, data[0][0] - 1e-9, data[-1][0] + 1e-9, data[-1][0] + 10.0, -3.0):
        n += 1
        if t(q) != 0.0:
            V(viol, 'reader-outside', 'file %r: f(%r) = %r outside the tabulated range' % (text, q, t(q)))
            return viol, n
    # the reader is a function of x: the same look-ups in descending and in interleaved order, and after look-ups outside the range
    qs = [xv for xv, _y in data] + [x0 + fr * (x1 - x0) for (x0, _a), (x1, _b) in zip(data[:-1], data[1:]) for fr in (0.25, 0.9)]
    first = dict((q, t(q)) for q in sorted(qs))
    for order in (sorted(qs, reverse=True), sorted(qs)[::2] + sorted(qs)[1::2][::-1], [qs[-1], data[-1][0] + 5.0, qs[0], data[0][0] - 5.0] + qs):
        for q in order:
            n += 1
            if t(q) != first.get(q, 0.0):
                V(viol, 'reader-depends-on-lookup-order', 'file %r: f(%r) = %r in an ascending pass, %r when looked up after other separations' % (text, q, first.get(q, 0.0), t(q)))
                return viol, n
    return viol, n


def run_reader_big(case):
    from atsim.potentials import TableReader
    n = case['nrows']
    f = lambda x: math.sin(0.37 * x) + 0.01 * x     # noqa
    fmt = case.get('fmt', '%.6f')
    if 'span' in case:
        xs = [case['span'] * i / (n - 1) for i in range(n)]
        if case.get('jitter'):
            xs = [x + (0.009 * case['span'] / (n - 1)) * ((i * 7) % 3 - 1) for i, x in enumerate(xs)]
            xs[n // 2:] = [x + 0.05 for x in xs[n // 2:]]
        seen = set()
        xs = [x for x in xs if not (fmt % x in seen or seen.add(fmt % x))]
        n = len(xs)
    else:
        xs = [0.001 * i for i in range(n)]
    text = ''.join((fmt + ' %.12f\n') % (x, f(x)) for x in xs)
    t = TableReader(io.StringIO(text))
    viol = []
    k = 0
    probe = list(range(0, n, 997)) + [n - 1, n - 2, n // 2]
    if 'span' in case:
        probe = list(range(n))
    for i in probe:
        k += 1
        want = float('%.12f' % f(xs[i]))
        got = t(float(fmt % xs[i]))
        if abs(got - want) > 1e-9:
            V(viol, 'reader-data-point', '%d-row file (%d bytes): f(%r) = %r, tabulated %r' % (n, len(text), xs[i], got, want))
            break
    if 'span' in case and not viol:
        px = [float(fmt % x) for x in xs]
        py = [float('%.12f' % f(x)) for x in xs]
        for i in range(0, n - 1, 3):
            k += 1
            q = px[i] + 0.37 * (px[i + 1] - px[i])
            want = py[i] + (py[i + 1] - py[i]) * (q - px[i]) / (px[i + 1] - px[i])
            got = t(q)
            if abs(got - want) > 1e-9 * (abs(want) + 1.0):
                V(viol, 'reader-interpolation', '%d-row file, x printed with %s: f(%r) = %r, the linear interpolant between rows %d and %d gives %r' % (n, fmt, q, got, i, i + 1, want))
                break
    return viol, k


# ----------------------------------------------------------------------------------------------------- plot
def run_plot(case):
    import atsim.potentials as ap
    viol = []
    lo, hi, steps, fn = case['lo'], case['hi'], case['steps'], case['fn']
    import numpy as np
    base = lambda v: 0.25 * v * v - 1.5 * v + math.cos(v)   # noqa
    ret = case.get('ret')
    if ret == 'numpy-scalar':
        f = lambda v: np.float64(base(v))                    # noqa
    elif ret == 'array0d':
        f = lambda v: np.array(base(v))                      # noqa
    else:
        f = base
    if ret == 'numpy-bounds':
        lo, hi = np.array([lo, hi])
    pot = ap.Potential('A', 'B', f)
    if fn in ('plotToFile', 'plotPotentialObjectToFile'):
        fp = io.StringIO()
        call = (lambda a, b, n_: ap.plotToFile(fp, a, b, f, n_)) if fn == 'plotToFile' else (lambda a, b, n_: ap.plotPotentialObjectToFile(fp, a, b, pot, n_))
        call(lo, hi, steps)
        text = fp.getvalue()
        # a second range written to the same open file (a fine grid followed by a coarse tail): the file then holds the rows of both calls
        call(hi, hi + 2.0, 3)
        both = fp.getvalue()
        rows2 = [ln for ln in both.split('\n') if ln != '']
        want2 = [float(hi) + i * 2.0 / 3 for i in range(3)]
        ok2 = len(rows2) == steps + 3 and both.startswith(text)
        if ok2:
            try:
                ok2 = all(len(ln.split()) == 2 and abs(float(ln.split()[0]) - w) <= 1e-9 * (abs(w) + 1.0) for ln, w in zip(rows2[steps:], want2))
            except ValueError:
                ok2 = False
        if not ok2:
            V(viol, 'plot-two-calls-one-file', '%s(steps=%d) followed by %s(steps=3) on the same file object leaves %d rows, last rows %r (expected %d rows, the last three at x = %r)'
              % (fn, steps, fn, len(rows2), rows2[-4:], steps + 3, want2))
            return viol, 1
    else:
        d = tempfile.mkdtemp(dir=R.scratch())
        path = os.path.join(d, 'plot.dat')
        if fn == 'plot':
            ap.plot(path, lo, hi, f, steps)
        else:
            ap.plotPotentialObject(path, lo, hi, pot, steps)
        with open(path) as fh:
            text = fh.read()
    lines = text.split('\n')
    if lines[-1] == '':
        lines = lines[:-1]
    if len(lines) != steps:
        V(viol, 'plot-row-count', '%s(%r, %r, steps=%d) wrote %d rows' % (fn, lo, hi, steps, len(lines)))
        return viol, 1
    for i, ln in enumerate(lines):
        t = ln.split()
        if len(t) != 2:
            V(viol, 'plot-format', 'row %d: %r' % (i, ln))
            return viol, 1
        try:
            xv, yv = float(t[0]), float(t[1])
        except ValueError:
            V(viol, 'plot-format', '%s row %d is not two numbers: %r' % (fn, i, ln))
            return viol, 1
        want = float(lo) + i * (float(hi) - float(lo)) / steps
        if abs(xv - want) > 4 * 2.3e-16 * (abs(want) + abs(lo) + 1e-300):
            V(viol, 'plot-x', '%s row %d: x = %r, expected lowx + i*(highx-lowx)/steps = %r' % (fn, i, xv, want))
            return viol, 1
        if yv != float(base(xv)):
            V(viol, 'plot-y', '%s row %d: y = %r, f(x) = %r' % (fn, i, yv, base(xv)))
            return viol, 1
    return viol, steps


def run_case(case):
    if case['kind'] == 'table':
        viol, n = run_table(case)
    elif case['kind'] == 'reader':
        viol, n = run_reader(case)
    elif case['kind'] == 'reader-big':
        viol, n = run_reader_big(case)
    else:
        viol, n = run_plot(case)
    return dict(outcome='ok:%s' % case['kind'] if not viol else 'violation', nontrivial=True, evals=max(1, n), violations=viol)
