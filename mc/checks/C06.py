"""C06 - built-in potential forms evaluate their documented formula and argument order, through all four routes."""
import itertools, math

from .. import routes as R
from ..refmodel import forms as F, expr as X
from ..refmodel.jets import Jet

PROPERTY = 'C06'
LEVEL = 'exploration'
RULE = ('cases = 15 built-in forms x per-form parameter lattice (negative, zero, small, large, fractional and integer-typed values; '
        'polynomial orders 0..8; Tang-Toennies with every zero/non-zero pattern of the dispersion coefficients) x 10 separations '
        'x 4 routes {potentialfunctions.f(r, p..), potentialforms.f(p..)(r), "as.NAME p.." in [Pair], as.NAME(r, p..) inside a '
        '[Potential-Form] formula (literal and positionally bound arguments)}; every lattice point evaluated; non-trivial = '
        'parameter vector with pairwise distinct non-zero components (so a swapped binding changes the value)')
RULE += "; polynomial orders 0..14; -1 / -2 parameter pairs; number spellings (25e-1, +1.5, .5, 5.); five spellings of as.NAME( inside formulas (blank before the bracket, upper case, bracket on a continuation line); a fifth route: as.NAME in [Pair] of a file that also defines the user's own form with the bare name NAME; integer-typed separations; the potential functions called with keyword arguments in reversed / rotated order, through functools.partial, and partly positional; zbl pairs that share the product or the sum of their atomic numbers; separations of type numpy.float64 (function route) and 0-d numpy arrays (factory route)"
ASSUMPTIONS = [
    'documented closed forms from docs/reference/potential_forms.rst; constants of coul (epsilon_0 = 0.0055264), zbl and Tang-Toennies (0.5292 bohr, 27.211 eV) as in DESIGN 2.3',
    'tolerance 1e-12 x (sum of the absolute values of the terms of the formula): absorbs legitimate re-association, not a changed constant, exponent or binding',
    'Tang-Toennies compared for r >= 0.8 only, with the conditioning allowance of its defining sum (catastrophic cancellation of f_2n at small b*r)',
    'decided on parameter/separation lattices, not on all reals',
]
BOUNDS = {'quick': 'about 2.7k parameter vectors x 13 separations x 5 routes', 'thorough': 'denser lattices (about 6k vectors) x 120 separations'}

R_QUICK = [0.05, 0.3, 0.8, 1.0, 1.6, 2.5, 4.0, 7.5, 12.0, 30.0, 1, 2, 7]       # (integer-typed separations as well)
R_THOROUGH = sorted(set(R_QUICK + [0.1, 0.2, 0.45, 0.65, 0.9, 1.25, 2.0, 3.0, 3.4, 5.0, 6.5, 9.0, 10.0, 15.0, 20.0, 25.0] + [0.07 * k for k in range(1, 60)] + [4.0 + 0.53 * k for k in range(1, 40)]))


def lattice(tier):
    A = [-3.5, 0, 0.7, 1200.0, 2.25]
    rho = [0.15, 0.35, 1.7, -2.5]
    P = {}
    P['bornmayer'] = list(itertools.product(A, rho))
    P['buck'] = list(itertools.product(A, rho, [-4.0, 0, 32.5, 0.5]))
    P['constant'] = [(c,) for c in (-2.5, 0, 0.3, 1e6, 7, -1, -2, -1.0, -2.0)]      # hash(-1) == hash(-2)
    q = [-2.0, -1.0, 0, 0.5, 4, 1.1, -1, -2]
    P['coul'] = list(itertools.product(q, q))
    P['exponential'] = list(itertools.product([-1.5, 0, 2.0, 300.0, -1, -2], [-6, -1, -2, 0, 1, 2, 3.5, 3, -2.5]))
    P['exp_spline'] = [(0.1, -0.2, 0.05, 0.01, -0.002, 0.0001, 0.3), (1.5, -0.9, 0.0, 0.0, 0.0, 0.0, 0.0), (0.0, 0.0, 0.0, 0.0, 0.0, 0.0, -2.0),
                       (-1.0, 0.3, -0.04, 0.002, -0.00005, 0.0000004, 12.5), (2, -1, 0, 0, 0, 0, 1), (0.3, 0.2, 0.01, -0.003, 0.0002, -0.000006, -0.7)]
    h = [-3.0, 0, 0.8, 2500.0, 45.5]
    P['hbnd'] = list(itertools.product(h, h))
    P['lj'] = list(itertools.product([-0.5, 0, 0.2, 12], [0.5, 2.5, 3.4, -1.5]))
    P['morse'] = list(itertools.product([-0.7, 0, 0.5, 1.8, 6], [-1.0, 0, 2, 3.5], [-0.4, 0, 0.6, 50.0]))
    polys = []
    base = [1.5, -2.0, 0.5, 0.1, -0.03, 0.004, -0.0005, 0.00006, -0.000007, 0.0000008, -0.00000009, 0.00000001, -1e-9, 1e-10, -1e-11]
    alt = [-3, 2, 0, -0.7, 0.02, 0, 0.0003, -0.00001, 0.000002, 0, -0.0000003, 0.00000002, 0, 0, 1e-10]
    for order in range(0, 15):
        polys.append(tuple(base[:order + 1]))
        polys.append(tuple(alt[:order + 1]))
        polys.append(tuple([0.0] * order + [2.5]))
        polys.append(tuple(float(k + 1) * (-1) ** k / (1 + k * k) for k in range(order + 1)))
        polys.append(tuple([-1] * (order + 1)))
        polys.append(tuple([-1] * order + [-2]))
    P['polynomial'] = polys
    P['sqrt'] = [(g,) for g in (-3.0, 0, 0.5, 40.0, 2.25, -1, -2)]
    P['tang_toennies'] = list(itertools.product([41.96, 0, -3.0], [2.523, 1.2], [1.461, 0], [14.11, 0], [183.6, 0]))
    z = [1, 2, 4, 8, 16, 14, 92, 7.5, 3, 6, 9]     # different pairs with one product ((2, 8) / (4, 4) / (1, 16), (3, 6) / (2, 9)), evaluated one after another in one process
    P['zbl'] = list(itertools.product(z, z))
    P['zero'] = [()]
    P['buck4'] = [(1388.773, 0.3623, 175.0, 1.2, 2.1, 2.6), (1000.0, 0.3, 30.0, 1, 2, 3), (500.0, 0.45, 60.0, 0.9, 1.5, 3.1), (2000.0, 0.25, 12.0, 1.5, 1.9, 2.2), (1388.773, 0.3623, 0, 1.2, 2.1, 2.6), (900.0, 0.3, 0.0, 1.0, 1.5, 2.5)]
    if tier != 'quick':
        A2 = A + [1e-3, -1e4, 37]
        P['bornmayer'] = list(itertools.product(A2, rho + [0.05, 5.0]))
        P['buck'] = list(itertools.product(A2, rho + [0.05], [-4.0, 0, 32.5, 0.5, 1e4]))
        P['morse'] = list(itertools.product([-0.7, 0, 0.5, 1.8, 6, 1], [-1.0, 0, 2, 3.5, 1.25], [-0.4, 0, 0.6, 50.0, 1]))
        P['lj'] = list(itertools.product([-0.5, 0, 0.2, 12, 1], [0.5, 2.5, 3.4, -1.5, 1, 2]))
        P['coul'] = list(itertools.product(q + [-1, 3], q + [-1, 3]))
        P['zbl'] = list(itertools.product(z + [2, 26, 54], z + [2, 26, 54]))
        h2 = h + [-45.5, 1e-3, 7, 120.0]
        P['hbnd'] = list(itertools.product(h2, h2))
        P['exponential'] = list(itertools.product([-1.5, 0, 2.0, 300.0, -1, -2, 1e-3, 0.5, 7], [-6, -1, -2, 0, 1, 2, 3.5, 3, -2.5, 0.5, 4, 5, 6, -0.5, 12]))
        P['tang_toennies'] = list(itertools.product([41.96, 0, -3.0, 1.0], [2.523, 1.2, 0.7], [1.461, 0, -2.0], [14.11, 0, 3.0], [183.6, 0, -50.0]))
        P['constant'] = [(c,) for c in (-2.5, 0, 0.3, 1e6, 7, -1, -2, -1.0, -2.0, 1e-12, -1e12, 3, 0.1)]
        P['sqrt'] = [(g,) for g in (-3.0, 0, 0.5, 40.0, 2.25, -1, -2, 1e-6, 1e6, 3)]
        q2 = q + [-0.5, 2, 1e-3, 10]
        P['coul'] = list(itertools.product(q2 + [-1, 3], q2 + [-1, 3]))
        P['exp_spline'] = P['exp_spline'] + [tuple(v * s_ for v in vec[:6]) + (vec[6] * s_,) for vec in P['exp_spline'][:4] for s_ in (0.5, -1.0, 2.0)]
        more = []
        for vec in polys:
            more.append(tuple(-v for v in vec))
            more.append(tuple(v * 0.5 for v in vec))
        P['polynomial'] = polys + more
    return P


def cases(tier):
    out = []
    P = lattice(tier)
    out.append(dict(kind='tt-small', form='tang_toennies', tier=tier, params=[list(v) for v in P['tang_toennies'] if v[0] and v[1] > 0] + [[41.96, 2.523, 1.461, 14.11, 183.6], [1.1e2, 2.2, 6.4, 90.0, 1500.0]]))
    for name in sorted(P):
        vecs = P[name]
        bs = 24
        for i in range(0, len(vecs), bs):
            out.append(dict(form=name, tier=tier, params=[list(v) for v in vecs[i:i + bs]]))
    return out


def scale(name, r, p):
    """sum of absolute values of the terms of the documented formula (conditioning of the evaluation)"""
    try:
        if name == 'buck':
            return abs(p[0]) * math.exp(-r / p[1]) + abs(p[2]) / r ** 6
        if name == 'hbnd':
            return abs(p[0]) / r ** 12 + abs(p[1]) / r ** 10
        if name == 'lj':
            s6 = (p[1] / r) ** 6
            return 4 * abs(p[0]) * (s6 * s6 + s6)
        if name == 'morse':
            return abs(p[2]) * (math.exp(-2 * p[0] * (r - p[1])) + 2 * math.exp(-p[0] * (r - p[1])))
        if name == 'polynomial':
            return sum(abs(c) * r ** i for i, c in enumerate(p))
        if name == 'exp_spline':
            return abs(F.exp_spline(r, *p).v - p[6]) + abs(p[6])
        if name == 'tang_toennies':
            A, b, C6, C8, C10 = p
            Rb = r / 0.5292
            x = b * Rb
            s = abs(A) * math.exp(-b * Rb)
            amp = 0.0
            for n, C in ((3, C6), (4, C8), (5, C10)):
                s += abs(C) / Rb ** (2 * n)
                amp += abs(C) / Rb ** (2 * n)
            # f_2n = 1 - exp(-x)*sum cancels: absolute error ~ few eps*(1+x) per unit of C/R^2n
            return 27.211 * (s + 2e-2 * (1 + x) * amp)
    except OverflowError:
        return float('inf')
    return 0.0


def ref_value(name, r, p):
    if name == 'buck4':
        return X.ev_buck4(p, r).v
    return F.FORMS[name](Jet.var(r), *p).v


def spell(v, style):
    """parameter text: style 0 shortest repr; 1 integer mantissa with exponent (25e-1); 2 upper-case exponent with sign; 3 leading / trailing point"""
    from decimal import Decimal
    if isinstance(v, int):
        return str(v)
    base = X.num(v)
    if style == 1:
        sign, digits, exp = Decimal(repr(float(v))).as_tuple()
        ds = ''.join(map(str, digits)).lstrip('0') or '0'
        out = '%s%se%d' % ('-' if sign else '', ds, exp)
    elif style == 2:
        out = ('%.17E' % v)
    elif style == 3:
        out = base[1:] if base.startswith('0.') else ('-' + base[2:] if base.startswith('-0.') else (base[:-1] if base.endswith('.0') else base))
    else:
        out = base
    return out if float(out) == float(v) else base


def route_values(name, vecs, rs):
    """-> {route: [[value per r] per vec]}"""
    import atsim.potentials.potentialfunctions as pf
    import atsim.potentials.potentialforms as pforms
    out = {}
    def ev(fn, *a):
        try:
            return fn(*a)
        except OverflowError:
            return None          # judged below: only a violation when the documented value is representable

    if name != 'buck4':
        f = getattr(pf, name)
        out['function'] = [[ev(f, r, *p) for r in rs] for p in vecs]
        # the same functions called with keyword arguments (their documented parameter names), written in another order than the signature
        import inspect, functools
        try:
            names = [q.name for q in inspect.signature(f).parameters.values() if q.kind == q.POSITIONAL_OR_KEYWORD]
        except (TypeError, ValueError):
            names = []
        if len(names) >= 2 and all(len(p) == len(names) - 1 for p in vecs):
            def kws(p, order):
                items = list(zip(names[1:], p))
                items = items[::-1] if order == 'reversed' else items[1:] + items[:1]
                return dict(items)
            out['function, keywords reversed'] = [[ev(lambda r_, kw=kws(p, 'reversed'): f(r_, **kw), r) for r in rs] for p in vecs]
            out['function, keywords rotated, r by keyword'] = [[ev(lambda r_, kw=kws(p, 'rotated'): f(**dict(kw, r=r_)), r) for r in rs] for p in vecs]
            out['functools.partial with keywords'] = [[ev(functools.partial(f, **kws(p, 'reversed')), r) for r in rs] for p in vecs]
            if len(names) >= 3:
                out['function, first parameter positional, rest keywords reversed'] = [[ev(lambda r_, kw=dict(list(zip(names[2:], p[1:]))[::-1]): f(r_, p[0], **kw), r) for r in rs] for p in vecs]
    fac = getattr(pforms, name)
    out['factory'] = [[ev(fac(*p), r) for r in rs] for p in vecs]
    # separations as numpy produces them (grids built with numpy.linspace / arange hand over numpy.float64; a[i:i+1].reshape(()) a 0-d array)
    import numpy
    if name != 'buck4':
        out['function, numpy.float64 separation'] = [[ev(lambda r_: float(f(numpy.float64(r_), *p)), r) for r in rs] for p in vecs]
    out['factory, 0-d array separation'] = [[ev(lambda r_: float(fac(*p)(numpy.array(float(r_)))), r) for r in rs] for p in vecs]
    # potable routes: one file, one [Pair] entry per parameter vector
    lines = ['[Tabulation]', 'target : LAMMPS', 'nr : 3', 'cutoff : 1.0', '', '[Pair]']
    for i, p in enumerate(vecs):
        lines.append('S%d-Q : as.%s %s' % (i, name, ' '.join(spell(v, i % 4) for v in p)))
    tab = R.config_read('\n'.join(lines) + '\n')
    pots = {pt.speciesA: pt for pt in tab.potentials}
    out['as.NAME in [Pair]'] = [[ev(pots['S%d' % i].energy, r) for r in rs] for i in range(len(vecs))]
    # the same file also defines the user's OWN form with the bare name (same arity): as.NAME still means the built-in
    from atsim.potentials.config._common import ConfigurationException
    k = len(vecs[0])
    own = ['', '[Potential-Form]', '%s(r%s) = 4242.0 + r' % (name, ''.join(', q%d' % i for i in range(k))), 'other_%s(r) = %s(r%s)' % (name, name, ', 1.0' * k)]
    try:
        tab = R.config_read('\n'.join(lines + ['OWN-Q : %s %s' % (name, ' '.join(['1.0'] * k))] + own) + '\n')
        pots = {pt.speciesA: pt for pt in tab.potentials}
        if abs(pots['OWN'].energy(0.5) - 4242.5) > 1e-9:
            out['own form %s'] = [[pots['OWN'].energy(0.5) + 1e99 for r in rs] for i in range(len(vecs))]      # the user's own form is not used for its own label
        else:
            out['as.NAME in [Pair] next to the user\'s own form NAME'] = [[ev(pots['S%d' % i].energy, r) for r in rs] for i in range(len(vecs))]
    except ConfigurationException:
        pass            # the label is reserved (e.g. sqrt is a function of the formula language): nothing to compare
    if name != 'buck4':
        lines = ['[Tabulation]', 'target : LAMMPS', 'nr : 3', 'cutoff : 1.0', '', '[Pair]']
        forms = ['[Potential-Form]']
        for i, p in enumerate(vecs):
            # spelling of the call: plain; blank before the bracket; upper case; bracket on a continuation line
            call = ['as.%s(' % name, 'as.%s (' % name, 'AS.%s(' % name.upper(), 'as.%s\n    (' % name, 'as.%s(\n    ' % name][(i // 2) % 5]
            if i % 2 == 0 or not p:
                args = ''.join(', ' + X.num(float(v)) for v in p)
                forms.append('w%d(r) = %sr%s)' % (i, call, args))
                lines.append('S%d-Q : w%d' % (i, i))
            else:
                names = ['p%d' % k for k in range(len(p))]
                forms.append('w%d(r, %s) = %sr, %s)' % (i, ', '.join(names), call, ', '.join(names)))
                lines.append('S%d-Q : w%d %s' % (i, i, ' '.join(X.num(v) for v in p)))
        tab = R.config_read('\n'.join(lines + [''] + forms) + '\n')
        pots = {pt.speciesA: pt for pt in tab.potentials}
        out['as.NAME(r, ..) in formula'] = [[ev(pots['S%d' % i].energy, r) for r in rs] for i in range(len(vecs))]
    return out


def tt_exact(r, A, b, C6, C8, C10):
    """the documented Tang-Toennies sum in 80-digit decimal arithmetic (no cancellation)"""
    from decimal import Decimal, getcontext
    getcontext().prec = 80
    R = Decimal(repr(float(r))) / Decimal('0.5292')
    x = Decimal(repr(float(b))) * R
    ex = (-x).exp()
    out = Decimal(repr(float(A))) * ex
    for n, C in ((3, C6), (4, C8), (5, C10)):
        term, ssum = Decimal(1), Decimal(0)
        for k in range(2 * n + 1):
            if k > 0:
                term = term * x / k
            ssum += term
        out -= (1 - ex * ssum) * Decimal(repr(float(C))) / R ** (2 * n)
    return float(out * Decimal('27.211'))


TT_SMALL_R = [0.1, 0.11, 0.12, 0.13, 0.15, 0.2, 0.3, 0.5, 0.65]


def run_tt_small(case):
    """0.1 <= r < 0.8 A, where the double-precision evaluation of the defining sum cancels: agreement with the exact sum to 1e-4 relative
    (the implementation is good to ~3e-6 at 0.1 A and better beyond; below 0.1 A nothing is demanded)"""
    import atsim.potentials.potentialfunctions as pf
    import atsim.potentials.potentialforms as pforms
    viol, n = [], 0
    for p in case['params']:
        for r in TT_SMALL_R:
            want = tt_exact(r, *p)
            for route, got in (('function', pf.tang_toennies(r, *p)), ('factory', pforms.tang_toennies(*p)(r))):
                n += 1
                if not abs(got - want) <= 1e-4 * abs(want) + 1e-9:
                    viol.append(dict(sig='value:tang_toennies-small-r', msg='as.tang_toennies%r at r=%r via %s: %r, the defining sum (80-digit arithmetic) gives %r' % (tuple(p), r, route, got, want), detail={}))
                    break
            else:
                continue
            break
        if viol:
            break
    return dict(outcome='ok:tt-small' if not viol else 'violation', nontrivial=True, evals=n, violations=viol)


def run_case(case):
    if case.get('kind') == 'tt-small':
        return run_tt_small(case)
    name, vecs = case['form'], [tuple(p) for p in case['params']]
    rs = R_QUICK if case.get('tier', 'quick') == 'quick' else R_THOROUGH
    if name == 'tang_toennies':
        rs = [r for r in rs if r >= 0.8]
    viol = []
    vals = route_values(name, vecs, rs)
    evals = 0
    nontriv = 0
    skipped = 0
    for vi, p in enumerate(vecs):
        nz = [v for v in p if v != 0]
        if len(set(nz)) == len(p) and len(p) >= 1:
            nontriv += 1
        for ri, r in enumerate(rs):
            try:
                ref = ref_value(name, r, p)
                sc = max(abs(ref), scale(name, r, p))
            except (OverflowError, ZeroDivisionError, ValueError):
                skipped += 1
                continue
            if not math.isfinite(ref) or not math.isfinite(sc):
                skipped += 1
                continue
            tol = 1e-12 * sc + 1e-300
            if name == 'buck4':
                tol = 1e-7 * (sc + 1.0)
            for route, vv in vals.items():
                evals += 1
                v = vv[vi][ri]
                if v is None:
                    if sc < 1e280:
                        viol.append(dict(sig='overflow:%s' % name, msg='as.%s%r at r=%r via %s raised OverflowError, documented value %r' % (name, p, r, route, ref), detail={}))
                        break
                    continue
                if not (abs(v - ref) <= tol):
                    viol.append(dict(sig='value:%s' % name, msg='as.%s%r at r=%r via %s: %r, documented formula gives %r (tolerance %.3g)'
                                     % (name, p, r, route, v, ref, tol), detail={}))
                    break
            else:
                continue
            break
    return dict(outcome='ok:%s' % name if not viol else 'violation', nontrivial=nontriv, evals=evals, violations=viol, skipped=skipped)
