"""C17 - a failed tabulation never leaves a partial table behind (failure-point enumeration)."""
import io, os, sys, subprocess, tempfile, shutil

from .. import routes as R, boot
from ..refmodel import expr as X

PROPERTY = 'C17'
CASE_TIMEOUT = 300
LEVEL = 'fault_enumeration'
RULE = ('cases = every tabulation target (11 potable targets + writePotentials x 3 + writeFuncFL + the procedural EAM writers) x EVERY position '
        'k = 1..N of the failing evaluation among all N function evaluations of a complete write (count pass first; pair, density, embedding, '
        'dipole and quadrupole functions all occur), through (a) the Python API with counting/raising proxies around every callable and a '
        'recording sink, followed by a second write() on the same object, and (b) potable main() in-process with a formula that leaves its '
        'domain at row i of function j (every function x every row) + real subprocess runs; non-trivial = every k (each is a distinct crash point)')
RULE += '; 14 exception classes incl. KeyboardInterrupt / SystemExit / AttributeError (also with every proxy as the only range of a multi-range form); evaluations that RETURN a complex number or None at k (a write that does not fail must emit a complete table); write-only, gzip, lzma, bz2 and forward-only (seekable() == False) text sinks; writeFuncFL with a pair term that turns attractive at row k (the square root inside the writer fails, nothing was injected); six-species 10^4-row tables failing late; potable formulas whose value becomes complex (negative base ** 1.5); ADP models with an empty dipole / quadrupole / pair list (every failure position)'
ASSUMPTIONS = [
    'a failing evaluation is modelled as an exception raised by the model callable (Python API) or by pymath.sqrt of a negative number inside a formula (potable)',
    'the sink is an in-memory file object (text or binary as open_fp would give) or the named OUTPUT_FILE',
    'after a failed write(), a second write() on the same object must again be all-or-nothing: raise and write nothing, or write the complete table',
]
BOUNDS = {'quick': 'grids nr = nrho = 4 (DL_POLY 8): N between 12 and 100 per target, all k; potable: every function x every row',
          'thorough': 'grids nr = nrho = 5..6 (DL_POLY 12) in addition'}


class InjectedFault(ValueError):
    pass


FAULTS = {'ValueError': InjectedFault, 'StopIteration': StopIteration, 'ZeroDivisionError': ZeroDivisionError, 'KeyError': KeyError,
          'RuntimeError': RuntimeError, 'OverflowError': OverflowError, 'GeneratorExit': None,
          'AttributeError': AttributeError, 'TypeError': TypeError, 'IndexError': IndexError, 'MemoryError': MemoryError,
          # not Exception subclasses: Ctrl-C in a notebook, sys.exit() in a callback
          'KeyboardInterrupt': KeyboardInterrupt, 'SystemExit': SystemExit}


RETURNS_NONE = object()      # the failing evaluation returns None (a branch without return statement)


class Shared(object):
    wrap = False      # True: every proxy is the only range of a multi-range potential form (as every potable-built function is)

    def __init__(self, fail_at, exc=InjectedFault, ret=None):
        self.count = 0
        self.fail_at = fail_at
        self.exc = exc
        self.ret = ret       # not None: the failing evaluation RETURNS this unprintable value instead of raising (the writer fails when it formats it)


class Proxy(object):
    def __init__(self, shared, f):
        self.shared, self.f = shared, f

    def __call__(self, r):
        self.shared.count += 1
        if self.shared.count == self.shared.fail_at:
            if self.shared.ret is RETURNS_NONE:
                return None
            if self.shared.ret is not None:
                return self.shared.ret
            raise self.shared.exc('injected failure at evaluation %d' % self.shared.count)
        return self.f(r)


API_TARGETS = ['LAMMPS', 'DLPOLY', 'GULP', 'excel', 'setfl', 'setfl_fs', 'DL_POLY_EAM', 'DL_POLY_EAM_fs', 'excel_eam', 'excel_eam_fs', 'eam_adp',
               'wp:LAMMPS', 'wp:DL_POLY', 'wp:GULP', 'proc:writeSetFL', 'proc:writeSetFLFinnisSinclair', 'proc:writeTABEAM',
               'proc:writeTABEAMFinnisSinclair', 'proc:writeFuncFL',
               'eam_adp:no-dipoles', 'eam_adp:no-quadrupoles', 'eam_adp:no-pairs']      # ADP models with an empty list (zero blocks are written in its place)


def make_objects(target, shared, n):
    """tabulation-writing closure for `target` with every model callable wrapped by a proxy on `shared`"""
    import atsim.potentials as ap
    from atsim.potentials import pair_tabulation as PT, eam_tabulation as ET
    import math
    adp_variant = None
    if target.startswith('eam_adp:'):
        target, adp_variant = target.split(':')
    def P(f):
        if shared.wrap:
            from atsim.potentials import create_Multi_Range_Potential_Form, Multi_Range_Defn
            return create_Multi_Range_Potential_Form(Multi_Range_Defn('>=', -1.0, Proxy(shared, f)))
        return Proxy(shared, f)
    pots = [ap.Potential('A', 'A', P(lambda r: 2.0 * math.exp(-r))), ap.Potential('A', 'B', P(lambda r: 1.0 + 0.5 * r * r)),
            ap.Potential('B', 'B', P(lambda r: 3.0 / (1.0 + r)))]
    fs = target.endswith('_fs') or 'FinnisSinclair' in target

    def dens(a):
        if fs:
            return {'A': P(lambda r: 0.3 * math.exp(-r) + (0.1 if a == 'A' else 0.2)), 'B': P(lambda r: 0.7 / (1 + r) + (0.1 if a == 'A' else 0.2))}
        return P(lambda r: (0.5 if a == 'A' else 0.8) * math.exp(-0.7 * r))
    eam = [ap.EAMPotential('A', 1, 1.5, P(lambda rho: -math.sqrt(rho + 1.0)), dens('A'), 2.5, 'fcc'),
           ap.EAMPotential('B', 2, 4.5, P(lambda rho: 0.1 * rho * rho - rho), dens('B'), 3.5, 'bcc')]
    dip = [ap.Potential('A', 'A', P(lambda r: 0.5 - 0.1 * r)), ap.Potential('A', 'B', P(lambda r: 0.25 + r))]
    quad = [ap.Potential('B', 'B', P(lambda r: 0.75 * math.exp(-r))), ap.Potential('B', 'A', P(lambda r: 1.25 - r))]
    if adp_variant == 'no-dipoles':
        dip = []
    elif adp_variant == 'no-quadrupoles':
        quad = []
    elif adp_variant == 'no-pairs':
        pots = []
    cutoff, crho = 2.0, 6.0
    nr = 4 * (n - 2) if target in ('DLPOLY', 'wp:DL_POLY') else n
    binary = target.startswith('excel')
    if target in ('LAMMPS', 'DLPOLY', 'GULP', 'excel'):
        cls = {'LAMMPS': PT.LAMMPS_PairTabulation, 'DLPOLY': PT.DLPoly_PairTabulation, 'GULP': PT.GULP_PairTabulation, 'excel': PT.Excel_PairTabulation}[target]
        tab = cls(pots, cutoff, nr)
        return tab.write, binary
    if target.startswith('wp:'):
        return (lambda fp: ap.writePotentials(target[3:], pots, cutoff, nr, fp)), False
    if target.startswith('proc:'):
        fn = getattr(ap, target[5:])
        drho, dr = crho / (n - 1), cutoff / (n - 1)
        if target == 'proc:writeFuncFL':
            return (lambda fp: fn(n, drho, n, dr, eam[:1], pots[:1], fp, title='t')), False
        return (lambda fp: fn(n, drho, n, dr, eam, pots, fp)), False
    cls = getattr(ET, {'setfl': 'SetFL_EAMTabulation', 'setfl_fs': 'SetFL_FS_EAMTabulation', 'DL_POLY_EAM': 'TABEAM_EAMTabulation',
                       'DL_POLY_EAM_fs': 'TABEAM_FinnisSinclair_EAMTabulation', 'excel_eam': 'Excel_EAMTabulation',
                       'excel_eam_fs': 'Excel_FinnisSinclair_EAMTabulation', 'eam_adp': 'ADP_EAMTabulation'}[target])
    if target == 'eam_adp':
        tab = cls(pots, eam, dip, quad, cutoff, n, crho, n)
    else:
        tab = cls(pots, eam, cutoff, n, crho, n)
    return tab.write, binary


class WriteOnly(object):
    """a sink that offers write() and nothing else (a pipe, a socket file, a logging wrapper)"""
    def __init__(self):
        self.parts = []

    def write(self, s):
        self.parts.append(s)
        return len(s)

    def getvalue(self):
        return ''.join(self.parts)


class GzipSink(object):
    """gzip.open(path, 'wt'): reports seekable() but cannot seek backwards or truncate while writing"""
    def __init__(self):
        import gzip
        self.path = tempfile.mktemp(dir=R.scratch(), suffix='.gz')
        self.fp = gzip.open(self.path, 'wt')

    def getvalue(self):
        import gzip
        try:
            self.fp.close()
        except Exception:  # noqa
            pass
        with gzip.open(self.path, 'rt') as f:
            data = f.read()
        os.remove(self.path)
        return data


class ForwardOnly(io.TextIOBase):
    """a complete text stream that says it cannot be rewound (what a pipe, a FIFO or a socket file answers): writable(), seekable() == False"""
    def __init__(self):
        io.TextIOBase.__init__(self)
        self.parts = []

    def writable(self):
        return True

    def seekable(self):
        return False

    def write(self, s):
        self.parts.append(s)
        return len(s)

    def getvalue(self):
        return ''.join(self.parts)


class CompressedSink(GzipSink):
    """lzma.open / bz2.open(path, 'wt'): forward-only compressed text streams (seekable() is False while writing)"""
    def __init__(self, modname):
        import importlib
        self.mod = importlib.import_module(modname)
        self.path = tempfile.mktemp(dir=R.scratch(), suffix='.' + modname)
        self.fp = self.mod.open(self.path, 'wt')

    def getvalue(self):
        try:
            self.fp.close()
        except Exception:  # noqa
            pass
        with self.mod.open(self.path, 'rt') as f:
            data = f.read()
        os.remove(self.path)
        return data


def api_run(target, k, n, exc=InjectedFault, big=False, ret=None, sink_kind=None, wrap=False):
    """-> (raised?, bytes in sink, evaluations, second-write outcome)"""
    shared = Shared(k, exc, ret)
    shared.wrap = wrap
    write, binary = (make_big if big else make_objects)(target, shared, n)
    sink = io.BytesIO() if binary else io.StringIO()
    if sink_kind == 'writeonly':
        sink = WriteOnly()
    elif sink_kind == 'gzip':
        sink = GzipSink()
    elif sink_kind == 'forward-only':
        sink = ForwardOnly()
    elif sink_kind in ('lzma', 'bz2'):
        sink = CompressedSink(sink_kind)
    if ret is not None:
        exc = Exception
    raised = False
    try:
        write(sink.fp if sink_kind in ('gzip', 'lzma', 'bz2') else sink)
    except exc:
        raised = True
    if raised and not big:
        # whatever the failed write abandoned must stay abandoned: collect garbage while the caller still holds the open sink
        import gc
        gc.collect()
    first = sink.getvalue()
    second = None
    if raised:
        sink2 = io.BytesIO() if binary else io.StringIO()
        try:
            write(sink2)
            second = ('returned', sink2.getvalue())
        except exc:
            second = ('raised', sink2.getvalue())
    return raised, first, shared.count, second


def make_big(target, shared, n):
    """six species on an n-row grid: several MiB of output before a late failure"""
    import atsim.potentials as ap
    from atsim.potentials import pair_tabulation as PT, eam_tabulation as ET
    import math
    P = lambda f: Proxy(shared, f)   # noqa
    sp = ['A', 'B', 'C', 'D', 'E', 'F']
    pots = [ap.Potential(sp[i], sp[j], P(lambda r, k=i * 6 + j: (1.0 + 0.01 * k) * math.exp(-r))) for i in range(6) for j in range(i, 6)]
    fs = target.endswith('_fs')

    def dens(i):
        if fs:
            return dict((b, P(lambda r, c=0.1 * (i * 6 + j + 1): c * math.exp(-0.7 * r))) for j, b in enumerate(sp))
        return P(lambda r, c=0.5 + 0.1 * i: c * math.exp(-0.7 * r))
    eam = [ap.EAMPotential(s_, i + 1, 1.5 + i, P(lambda rho, c=1.0 + i: -c * math.sqrt(rho + 1.0)), dens(i), 2.5, 'fcc') for i, s_ in enumerate(sp)]
    cutoff, crho = 6.0, 60.0
    if target in ('LAMMPS', 'DLPOLY', 'GULP'):
        cls = {'LAMMPS': PT.LAMMPS_PairTabulation, 'DLPOLY': PT.DLPoly_PairTabulation, 'GULP': PT.GULP_PairTabulation}[target]
        return cls(pots, cutoff, n).write, False
    cls = getattr(ET, {'setfl': 'SetFL_EAMTabulation', 'setfl_fs': 'SetFL_FS_EAMTabulation', 'DL_POLY_EAM': 'TABEAM_EAMTabulation',
                       'DL_POLY_EAM_fs': 'TABEAM_FinnisSinclair_EAMTabulation', 'eam_adp': 'ADP_EAMTabulation'}[target])
    if target == 'eam_adp':
        return cls(pots, eam, pots[:3], pots[3:6], cutoff, n, crho, n).write, False
    return cls(pots, eam, cutoff, n, crho, n).write, False


BIG_TARGETS = ['LAMMPS', 'DLPOLY', 'GULP', 'setfl', 'setfl_fs', 'DL_POLY_EAM', 'DL_POLY_EAM_fs', 'eam_adp']
BIG_N = 10000


_count_cache = {}


def count_evals(target, n):
    if (target, n) not in _count_cache:
        raised, ref, N, _s = api_run(target, 0, n)
        assert not raised
        _count_cache[(target, n)] = (N, ref)
    return _count_cache[(target, n)]


POTABLE_TARGETS = ['LAMMPS', 'DLPOLY', 'GULP', 'excel', 'setfl', 'setfl_fs', 'DL_POLY_EAM', 'DL_POLY_EAM_fs', 'excel_eam', 'excel_eam_fs', 'eam_adp']


def potable_slots(target):
    eam = target not in ('LAMMPS', 'DLPOLY', 'GULP', 'excel')
    fs = target.endswith('_fs')
    slots = [('Pair', 'A-A'), ('Pair', 'A-B'), ('Pair', 'B-B')]
    if eam:
        slots += [('EAM-Embed', 'A'), ('EAM-Embed', 'B')]
        slots += [('EAM-Density', k) for k in (('A->A', 'A->B', 'B->A', 'B->B') if fs else ('A', 'B'))]
    if target == 'eam_adp':
        slots += [('EAM-ADP-Dipole', 'A-A'), ('EAM-ADP-Dipole', 'A-B'), ('EAM-ADP-Quadrupole', 'B-B'), ('EAM-ADP-Quadrupole', 'A-B')]
    return slots


def potable_ini(target, bad_slot, row, n, mode='sqrt'):
    nr = 4 * (n - 2) if target == 'DLPOLY' else n
    cutoff, crho = 2.0, 6.0
    dr, drho = cutoff / (nr - 1), crho / (n - 1)
    out = ['[Tabulation]', 'target : %s' % target, 'nr : %d' % nr, 'cutoff : %s' % X.num(cutoff)]
    eam = target not in ('LAMMPS', 'DLPOLY', 'GULP', 'excel')
    if eam:
        out += ['nrho : %d' % n, 'cutoff_rho : %s' % X.num(crho), '', '[Species]', 'A.atomic_number : 1', 'A.atomic_mass : 1.5', 'B.atomic_number : 2', 'B.atomic_mass : 4.5']
    sections = {}
    for sec, key in potable_slots(target):
        if bad_slot is not None and (sec, key) == tuple(bad_slot):
            step = drho if sec == 'EAM-Embed' else dr
            start = 1 if target in ('LAMMPS', 'DLPOLY') and sec == 'Pair' else 0     # these tables start at r = dr
            xfail = (start + row - 0.5) * step
            if mode == 'pow':
                # negative base ** 1.5 is a complex number in Python: nothing raises until the writer formats the value
                sections.setdefault(sec, []).append('%s : >=0 sum(as.constant 1.0, pow(as.polynomial %s -1.0, as.constant 1.5))' % (key, X.num(xfail)))
            else:
                sections.setdefault(sec, []).append('%s : >=0 bad %s' % (key, X.num(xfail)))
        else:
            sections.setdefault(sec, []).append('%s : >=0 as.polynomial %s 0.5 0.25' % (key, X.num(1.0 + 0.1 * len(sections.get(sec, [])))))
    for sec in ('Pair', 'EAM-Embed', 'EAM-Density', 'EAM-ADP-Dipole', 'EAM-ADP-Quadrupole'):
        if sec in sections:
            out += ['', '[%s]' % sec] + sections[sec]
    out += ['', '[Potential-Form]', 'bad(r, X) = 1.0 + 0.5*r + 0.000001*pymath.sqrt(X - r)', '']
    return '\n'.join(out)


def cases(tier):
    out = []
    ns = [4] if tier == 'quick' else [4, 5, 6]
    for n in ns:
        for tgt in API_TARGETS:
            N, _ref = count_evals(tgt, n)
            for k in range(1, N + 1):
                out.append(dict(route='api', target=tgt, k=k, n=n, N=N))
        for tgt in POTABLE_TARGETS:
            nr = 4 * (n - 2) if tgt == 'DLPOLY' else n
            for slot in potable_slots(tgt):
                rows = n if slot[0] == 'EAM-Embed' else (nr - 1 if tgt == 'LAMMPS' and slot[0] == 'Pair' else nr)
                for row in range(rows):
                    out.append(dict(route='potable', target=tgt, slot=list(slot), row=row, n=n))
                    if tier != 'quick' or row in (0, 1, rows - 1):
                        out.append(dict(route='potable', target=tgt, slot=list(slot), row=row, n=n, mode='pow'))
            out.append(dict(route='potable', target=tgt, slot=None, row=0, n=n))       # control: fault-free run writes a table
    # other exception classes a model callable may raise (StopIteration is swallowed by map()/generators if the writer uses them)
    for tgt in API_TARGETS:
        N, _ref = count_evals(tgt, 4)
        for name in sorted(FAULTS):
            if FAULTS[name] is None:
                continue
            for k in sorted(set([1, 2, N // 2, N - 1, N])):
                if name != 'ValueError':
                    out.append(dict(route='api', target=tgt, k=k, n=4, N=N, exc=name))
                if k in (2, N // 2, N):
                    out.append(dict(route='api', target=tgt, k=k, n=4, N=N, exc=name, wrap=True))
    # evaluations that RETURN something unprintable (a complex number, as negative**fractional does) at k: the failure happens while formatting
    for tgt in API_TARGETS:
        N, _ref = count_evals(tgt, 4)
        for k in range(1, N + 1):
            out.append(dict(route='api', target=tgt, k=k, n=4, N=N, ret='complex'))
            if not tgt.startswith('excel'):
                out.append(dict(route='api', target=tgt, k=k, n=4, N=N, ret='none'))
    # other kinds of sink for the text targets: write-only objects and gzip text streams
    for tgt in API_TARGETS:
        if tgt.startswith('excel'):
            continue
        N, _ref = count_evals(tgt, 4)
        for kind in ('writeonly', 'gzip', 'forward-only', 'lzma', 'bz2'):
            for k in (range(0, N + 1) if kind == 'forward-only' else sorted(set([0, 1, 2, N // 3, N // 2, N - 1, N]))):
                out.append(dict(route='api', target=tgt, k=k, n=4, N=N, sink=kind))
    # failures that come from ordinary values, inside the writer: the funcfl effective-charge square root of an attractive pair term, from every row on
    for n in (5, 9):
        for k in range(0, n + 1):
            out.append(dict(route='natural', target='proc:writeFuncFL', n=n, k=k))
    # tables of several MiB: failures late in the write (after megabytes of text have been produced)
    for tgt in BIG_TARGETS:
        for frac in ((0.999,) if tier == 'quick' else (0.5, 0.9, 0.999)):
            out.append(dict(route='api-big', target=tgt, frac=frac, n=BIG_N))
    for tgt in POTABLE_TARGETS:
        for j, slot in enumerate(potable_slots(tgt)[:3 if tier == 'quick' else None]):
            out.append(dict(route='subprocess', target=tgt, slot=list(slot), row=j % 2 + 1, n=4))
    return out


def V(viol, sig, msg):
    viol.append(dict(sig=sig, msg=msg, detail={}))


def run_api(case):
    viol = []
    tgt, k, n = case['target'], case['k'], case['n']
    N, ref = count_evals(tgt, n)
    if N != case['N']:
        V(viol, 'nondeterministic-evaluation-count', '%s: %d evaluations now, %d when the case list was built' % (tgt, N, case['N']))
        return viol
    exc = FAULTS[case.get('exc', 'ValueError')]
    ret = complex(1.0, 1.0) if case.get('ret') == 'complex' else (RETURNS_NONE if case.get('ret') == 'none' else None)
    raised, first, cnt, second = api_run(tgt, k, n, exc, ret=ret, sink_kind=case.get('sink'), wrap=bool(case.get('wrap')))
    if k == 0:
        if raised or first != ref:
            V(viol, 'sink-kind-changes-output:%s' % tgt, '%s written to a %s sink: %s, %d bytes; to a StringIO %d bytes' % (tgt, case.get('sink'), 'raised' if raised else 'returned', len(first), len(ref)))
        return viol
    if ret is RETURNS_NONE and not raised:
        # nothing failed visibly: then the table must at least be complete (as many numbers as the fault-free table), never a shorter one
        if len(first.split()) != len(ref.split()):
            V(viol, 'value-dropped-silently:%s' % tgt, '%s: evaluation %d of %d returned None; write() returned normally and emitted %d tokens, the complete table has %d'
              % (tgt, k, N, len(first.split()), len(ref.split())))
        return viol
    if ret is not None and not raised:
        return viol        # the writer printed the value somehow: not a failed tabulation
    if raised:
        if len(first):
            V(viol, 'partial-output:%s' % tgt, '%s: evaluation %d of %d failed and write() raised, but %d bytes had already been written to the file object'
              % (tgt, k, N, len(first)))
    else:
        V(viol, 'fault-swallowed:%s' % tgt, '%s: evaluation %d of %d raised but write() returned normally (%d bytes)' % (tgt, k, N, len(first)))
    if second is not None:
        how, data = second
        if how == 'raised' and len(data):
            V(viol, 'partial-output-second-write:%s' % tgt, '%s: second write() after the failure at evaluation %d raised and left %d bytes' % (tgt, k, len(data)))
        if how == 'returned':
            same = (data == ref) if not tgt.startswith('excel') else xlsx_equal(data, ref)
            if not same:
                V(viol, 'truncated-second-write:%s' % tgt, '%s: write() failed at evaluation %d of %d; a second write() on the same object returned normally '
                  'but its %d bytes are not the complete table (%d bytes)' % (tgt, k, N, len(data), len(ref)))
    return viol


def xlsx_equal(a, b):
    from ..readers import eam as RE
    try:
        return RE.read_xlsx(a) == RE.read_xlsx(b)
    except Exception:  # noqa
        return False


def run_potable(case):
    viol = []
    tgt = case['target']
    ini = potable_ini(tgt, case['slot'], case['row'], case['n'], case.get('mode', 'sqrt'))
    res = R.potable(ini, binary=tgt.startswith('excel'))
    if case.get('mode') == 'pow' and res.status == 0:
        return viol      # the target printed the complex value somehow: not a failed tabulation
    if case['slot'] is None:
        if res.status != 0 or not res.out_bytes:
            V(viol, 'control-run-failed', '%s: the fault-free model was not tabulated (status %r, %s)' % (tgt, res.status, res.exc or res.stderr[-200:]))
        return viol
    if res.status == 0:
        V(viol, 'fault-swallowed:%s' % tgt, 'potable %s: %s %s leaves its domain at row %d but potable exited normally' % (tgt, case['slot'][0], case['slot'][1], case['row']))
    if res.out_exists and res.out_bytes is not None and len(res.out_bytes) > 0:
        V(viol, 'partial-output:%s' % tgt, 'potable %s: %s %s fails at row %d; OUTPUT_FILE was left with %d bytes' % (tgt, case['slot'][0], case['slot'][1], case['row'], len(res.out_bytes)))
    return viol


def run_subprocess(case):
    viol = []
    tgt = case['target']
    d = tempfile.mkdtemp(dir=R.scratch())
    cfg, out = os.path.join(d, 'm.aspot'), os.path.join(d, 'OUT')
    with open(cfg, 'w') as f:
        f.write(potable_ini(tgt, case['slot'], case['row'], case['n']))
    script = os.path.join(boot.VERIF, 'tools', 'potable_main.py')
    p = subprocess.run([sys.executable, '-W', 'ignore', os.path.join(boot.VERIF, 'tools', 'treepy.py'), boot.REPO, script, cfg, out],
                       capture_output=True, timeout=120, cwd=d, env=dict(os.environ, PYTHONDONTWRITEBYTECODE='1'))
    if p.returncode == 0:
        V(viol, 'fault-swallowed:%s' % tgt, 'potable subprocess %s exited 0 although %s %s fails at row %d' % (tgt, case['slot'][0], case['slot'][1], case['row']))
    if os.path.exists(out) and os.path.getsize(out) > 0:
        V(viol, 'partial-output:%s' % tgt, 'potable subprocess %s: OUTPUT_FILE has %d bytes after the failure' % (tgt, os.path.getsize(out)))
    shutil.rmtree(d, True)
    return viol


_big_counts = {}


def run_api_big(case):
    viol = []
    tgt, n = case['target'], case['n']
    if tgt not in _big_counts:
        raised, ref, N, _s = api_run(tgt, 0, n, big=True)
        _big_counts[tgt] = (N, len(ref))
    N, size = _big_counts[tgt]
    k = max(1, int(N * case['frac']))
    raised, first, cnt, second = api_run(tgt, k, n, big=True)
    if raised and len(first):
        V(viol, 'partial-output:%s' % tgt, '%s, 6 species, %d rows (%.1f MiB table): evaluation %d of %d failed and write() raised, but %d bytes had already been written'
          % (tgt, n, size / 1048576.0, k, N, len(first)))
    if not raised:
        V(viol, 'fault-swallowed:%s' % tgt, '%s large table: evaluation %d of %d raised but write() returned normally' % (tgt, k, N))
    return viol


def run_natural(case):
    """failures that arise inside the writer from ordinary function VALUES (no exception injected): writeFuncFL takes the square root of
    r*phi(r)/(27.2*0.529) - a pair term that is attractive from row k on makes it fail; the sink stays empty then"""
    import math
    import atsim.potentials as ap
    from ..readers import eam as RE
    n, k = case['n'], case['k']
    cutoff, crho = 2.0, 6.0
    dr, drho = cutoff / (n - 1), crho / (n - 1)
    rk = k * dr
    pair = ap.Potential('A', 'A', lambda r: (2.0 * math.exp(-r)) if r < rk - 1e-9 else -0.5 * math.exp(-r))
    eam = [ap.EAMPotential('A', 1, 1.5, lambda rho: -math.sqrt(rho + 1.0), lambda r: 0.5 * math.exp(-0.7 * r), 2.5, 'fcc')]
    viol = []
    for sink_kind in ('stringio', 'forward-only'):
        sink = io.StringIO() if sink_kind == 'stringio' else ForwardOnly()
        try:
            ap.writeFuncFL(n, drho, n, dr, eam, [pair], sink, title='t')
            raised = None
        except Exception as e:  # noqa
            raised = e
        data = sink.getvalue()
        if raised is not None and data:
            V(viol, 'partial-output:natural:funcfl', 'writeFuncFL with a pair term that turns attractive at row %d of %d raised %s and left %d characters in the %s sink: %r'
              % (k, n, type(raised).__name__, len(data), sink_kind, data[-60:]))
        elif raised is None:
            try:
                t = RE.read_funcfl(data)
            except Exception as e2:  # noqa
                V(viol, 'incomplete-output:natural:funcfl', 'writeFuncFL returned but the file is not a complete funcfl table: %s' % e2)
    return viol


def run_case(case):
    viol = {'api': run_api, 'potable': run_potable, 'subprocess': run_subprocess, 'api-big': run_api_big, 'natural': run_natural}[case['route']](case)
    return dict(outcome='ok:%s:%s' % (case['route'], case['target']) if not viol else 'violation', nontrivial=True, evals=1, violations=viol)
