"""C03 - setfl (eam/alloy): element blocks, grids, r*phi blocks and metadata are faithful."""
import itertools

from .. import eamkit as EK
from ..readers import eam as RE
from ..readers.pair import FormatError

PROPERTY = 'C03'
LEVEL = 'exploration'
RULE = ('cases = EAM models: every ordered subset of {Al,Cu,Fe,Ni} (size 1..3 quick, 1..4 thorough) as [EAM-Embed] order x every '
        'subset of the unordered element pairs declared x 3 orientation patterns (A-B / B-A) x listing orders (all for <= 3 pairs, '
        'rotations + reversal beyond) x density order x metadata source {built-in, [Species] override, custom elements} x '
        'under-specified embedding sets x grid x route {class, writeSetFL, Configuration.read, potable} x target spelling; plus '
        'two-model histories; every case executed; non-trivial = >= 2 elements or >= 1 declared pair (all functions distinct '
        'per element/pair so any mis-routing changes a number)')
RULE += '; label models (anagram labels, 8-character labels, numbers of different digit counts, element lines of very different lengths), pair potentials of species without EAM functions, comments= lists of 0..5 entries, EAMPotential objects whose functions are assigned after construction, numpy-returning callables, [Species] written property-major / interleaved, (nr, nrho) up to (20001, 50000); values of 1e-127 .. 1e120 inside the tabulated range (three-digit exponents); nrho = 1000001 and nr = 1234567 (seven-digit counts; every 9973rd row recomputed); the grid itself: writeSetFL / writeSetFLFinnisSinclair given staircase functions with a step at every grid point float(i)*step'
ASSUMPTIONS = [
    'setfl token-stream layout as LAMMPS pair_style eam/alloy reads it (mc/readers/eam.py)',
    'reference closed forms for polynomial/bornmayer/morse; tolerance 1e-9 relative + 1e-13 absolute on %20.16e numbers',
    'element ORDER of zero-filled species is judged by C12 (determinism), C03 demands consistency with the order the header declares',
    'the 5th header number (cutoff) is not part of the statement and is not judged',
    'built-in element data for Al/Cu/Fe/Ni: (13, 26.981538), (29, 63.546), (26, 55.845), (28, 58.6934)',
]
BOUNDS = {'quick': 'elements <= 3; all 2^6 pair subsets; grids nr,nrho in {2,3,4,5,7,8}; routes rotated (one API + one file route per model)',
          'thorough': 'elements <= 4 (4-element models: pair subsets of size <= 2 and >= 9 only); all routes for every model'}


def cases(tier):
    out = []
    sizes = (1, 2, 3) if tier == 'quick' else (1, 2, 3, 4)
    G = EK.grids(tier)
    k = 0
    for els in EK.ordered_subsets(EK.UNIVERSE, sizes):
        up = EK.unordered_pairs(els)
        for s in range(len(up) + 1):
            if len(els) == 4 and 2 < s < 9:
                continue
            for sub in itertools.combinations(up, s):
                seen = set()
                for pat in (0, 1, 2):
                    for order in EK.orders(EK.orient(sub, pat)):
                        key = tuple(map(tuple, order))
                        if key in seen:
                            continue
                        seen.add(key)
                        k += 1
                        nr, nrho = G[k % len(G)]
                        cutoff, cutoff_rho = EK.CUTS[k % len(EK.CUTS)]
                        dens = list(els) if k % 3 else list(reversed(els))
                        m = dict(fs=False, embed=list(els), dens=dens, pairs=[list(p) for p in order],
                                 species=('builtin', 'override')[k % 2], nr=nr, cutoff=cutoff, nrho=nrho, cutoff_rho=cutoff_rho)
                        routes = ['cls', 'proc', 'cfg', 'potable'] if tier != 'quick' else [('cls', 'proc')[k % 2], ('cfg', 'potable')[(k // 2) % 2]]
                        for route in routes:
                            out.append(dict(m=m, route=route, spelling=('setfl', 'lammps_eam_alloy')[k % 2]))
    # under-specified models (file routes): embedding declared for a prefix of the density species only
    for els in EK.ordered_subsets(EK.UNIVERSE, (2, 3) if tier == 'quick' else (2, 3, 4)):
        for ne in range(1, len(els)):
            k += 1
            nr, nrho = G[k % len(G)]
            m = dict(fs=False, embed=list(els[:ne]), dens=list(els), pairs=[[els[0], els[-1]]], species='builtin',
                     nr=nr, cutoff=2.5, nrho=nrho, cutoff_rho=50.0)
            for route in ('cfg', 'potable'):
                out.append(dict(m=m, route=route, spelling='setfl'))
    # custom elements known only through [Species]
    for els in EK.ordered_subsets(EK.CUSTOM, (1, 2, 3)):
        k += 1
        nr, nrho = G[k % len(G)]
        up = EK.unordered_pairs(els)
        m = dict(fs=False, embed=list(els), dens=list(els), pairs=[list(p) for p in EK.orient(up[::2], k % 3)], species='custom',
                 nr=nr, cutoff=6.5, nrho=nrho, cutoff_rho=100.0)
        for route in ('cls', 'cfg', 'potable'):
            out.append(dict(m=m, route=route, spelling='setfl'))
    # structured 5- and 6-element models, every route
    for m in EK.big_models(False, tier):
        for route in ('cls', 'proc', 'cfg', 'potable'):
            out.append(dict(m=m, route=route, spelling='setfl'))
    for i, m in enumerate(EK.species_layout_models(False)):
        out.append(dict(m=m, route=('cfg', 'potable')[i % 2], spelling='setfl'))
    for m in EK.api_option_models(False):
        if 'title' in m:
            continue
        for route in (('proc',) if ('comments' in m or 'header_cutoff' in m) else ('cls', 'proc')):
            out.append(dict(m=m, route=route, spelling='setfl'))
    # labels (anagrams, 8 characters, element lines of different lengths) and pair potentials of species without EAM functions
    for i, m in enumerate(EK.label_models(False, tier)):
        for route in (('cls', 'proc', 'cfg', 'potable') if tier != 'quick' else (('cls', 'proc')[i % 2], ('cfg', 'potable')[(i // 2) % 2])):
            out.append(dict(m=m, route=route, spelling='setfl'))
    for m in EK.big_grid_models(False):
        for route in (('cls', 'potable') if tier == 'quick' else ('cls', 'proc', 'cfg', 'potable')):
            out.append(dict(m=m, route=route, spelling='setfl', big=True))
    for i, m in enumerate(EK.extreme_models(False)):
        for route in (('cls', 'potable') if m.get('mag') else (('proc',) if i % 2 else ('cfg',))):
            out.append(dict(m=m, route=route, spelling='setfl', big=True))
    # the grid itself: staircase functions with a step at every grid point, every pairing of 8 (step, rows) choices for the two grids
    for g1 in EK.GRID_EXACT:
        for g2 in EK.GRID_EXACT:
            for fs in (False, True):
                out.append(dict(kind='grid-exact', rho=list(g1), r=list(g2), fs=fs))
    # histories: a model with [Species] overrides is built first, then the same elements without overrides
    for els in (['Al'], ['Al', 'Cu'], ['Fe', 'Ni', 'Al']):
        for route in ('cfg', 'potable', 'cls'):
            m0 = dict(fs=False, embed=list(els), dens=list(els), pairs=[[els[0], els[-1]]], species='override', nr=3, cutoff=2.5, nrho=3, cutoff_rho=50.0)
            m1 = dict(m0, species='builtin')
            out.append(dict(m=m1, route=route, spelling='setfl', pre=m0))
    return out


def close(a, b, floor=1e-13):
    return abs(a - b) <= 1e-9 * abs(b) + floor


def check_setfl(m, route, text, kind='alloy', els_given=None):
    viol = []

    def V(sig, msg):
        viol.append(dict(sig=sig, msg=msg, detail={}))
    try:
        t = RE.read_setfl(text, kind)
    except FormatError as e:
        V('format-error', 'unreadable setfl: %s' % e)
        return viol, None
    els = t['elements']
    want = EK.model_elements(m)
    if len(set(els)) != len(els):
        V('element-repeated', 'header names an element twice: %r' % els)
        return viol, t
    if set(els) != set(want):
        V('element-set', 'header elements %r, model elements %r' % (els, want))
        return viol, t
    if route in ('cls', 'proc') and els != want:
        V('element-order', 'header elements %r, EAMPotential list order %r' % (els, want))
    if t['nrho'] != m['nrho'] or t['nr'] != m['nr']:
        V('header-counts', 'header Nrho=%d Nr=%d, grid nrho=%d nr=%d' % (t['nrho'], t['nr'], m['nrho'], m['nr']))
        return viol, t
    drho = m['cutoff_rho'] / (m['nrho'] - 1)
    dr = m['cutoff'] / (m['nr'] - 1)
    if not close(t['drho'], drho):
        V('header-drho', 'header drho=%r, expected cutoff_rho/(nrho-1)=%r' % (t['drho'], drho))
    if not close(t['dr'], dr):
        V('header-dr', 'header dr=%r, expected cutoff/(nr-1)=%r' % (t['dr'], dr))
    ref = EK.ref_functions(m, EK.semantics(route))
    # models of extreme magnitudes: pure exponentials / monomials (no cancellation), printed with 17 significant digits - relative only
    floor = 0.0 if m.get('mag') else 1e-13
    stride = m.get('stride', 1)          # million-row tables: every stride-th row and the last ones are recomputed
    pick = lambda n_: (lambda i: stride == 1 or i % stride == 0 or i >= n_ - 3)   # noqa
    for blk in t['blocks']:
        el = blk['el']
        Z, mass, a, lat = EK.ref_meta(m, el, route)
        rel = lambda x, y: abs(x - y) <= 1e-12 * abs(y)   # noqa  (printed with 17 significant digits: relative, no absolute floor)
        if blk['Z'] != Z or not rel(blk['mass'], mass) or not rel(blk['a'], a) or blk['lattice'] != lat:
            V('metadata', 'element %s: metadata %r, expected %r' % (el, (blk['Z'], blk['mass'], blk['a'], blk['lattice']), (Z, mass, a, lat)))
        for i, v in enumerate(blk['embed']):
            if not pick(len(blk['embed']))(i):
                continue
            r = ref['F'][el](i * drho).v
            if not close(v, r, floor):
                V('embed', 'element %s: F[%d] (rho=%r) = %r, reference %r' % (el, i, i * drho, v, r))
                break
        if kind != 'fs':
            for i, v in enumerate(blk['dens']):
                if not pick(len(blk['dens']))(i):
                    continue
                r = ref['rho'][el](i * dr).v
                if not close(v, r, floor):
                    V('density', 'element %s: rho[%d] (r=%r) = %r, reference %r' % (el, i, i * dr, v, r))
                    break
    for (i, j), vals in t['pair'].items():
        f = ref['phi'](els[i], els[j])
        for k, v in enumerate(vals):
            if not pick(len(vals))(k):
                continue
            r = k * dr * f(k * dr).v
            if not close(v, r, floor):
                V('pair', 'pair block (%s,%s): value %d (r=%r) = %r, reference r*phi=%r' % (els[i], els[j], k, k * dr, v, r))
                break
    return viol, t


def run_grid_exact(case):
    """writeSetFL / writeSetFLFinnisSinclair are handed the steps themselves: row i of every array is the function at float(i)*step"""
    import io
    import atsim.potentials as ap
    (drho, nrho), (dr, nr), fs = case['rho'], case['r'], case['fs']
    pots, eam = EK.grid_exact_objects(nrho, drho, nr, dr, fs)
    out = io.StringIO()
    (ap.writeSetFLFinnisSinclair if fs else ap.writeSetFL)(nrho, drho, nr, dr, eam, pots, out)
    viol = []
    try:
        t = RE.read_setfl(out.getvalue(), 'fs' if fs else 'alloy')
    except FormatError as e:
        return dict(outcome='violation', nontrivial=True, evals=1, violations=[dict(sig='format-error', msg='unreadable setfl: %s' % e, detail={})])
    arrays = [('embedding', drho, t['blocks'][0]['embed'], [float(i + 1) for i in range(nrho)]),
              ('density', dr, t['blocks'][0]['dens'][0] if fs else t['blocks'][0]['dens'], [float(i + 1) for i in range(nr)]),
              ('r*phi', dr, t['pair'][(0, 0)], [float(i) * dr * (i + 1) for i in range(nr)])]
    n = 0
    for name, step, got, want in arrays:
        n += len(got)
        bad = [k for k, (a, c) in enumerate(zip(got, want)) if not abs(a - c) <= 1e-12 * abs(c)]
        if bad or len(got) != len(want):
            i = bad[0] if bad else min(len(got), len(want))
            viol.append(dict(sig='grid-position:%s' % name, msg='%s array, step %r, %d points: row %d holds %r, a staircase with a step at every grid point gives %r at %d*step = %r (the function was evaluated at another argument)'
                             % (name, step, len(want), i, got[i] if i < len(got) else None, want[i] if i < len(want) else None, i, float(i) * step), detail={}))
            break
    return dict(outcome='ok:grid-exact' if not viol else 'violation', nontrivial=True, evals=max(1, n), violations=viol)


def run_case(case):
    if case.get('kind') == 'grid-exact':
        return run_grid_exact(case)
    m, route = case['m'], case['route']
    if case.get('pre'):
        EK.produce(case['pre'], 'setfl', route, case.get('spelling'))
    text = EK.produce(m, 'setfl', route, case.get('spelling'))
    viol, t = check_setfl(m, route, text)
    n = 0
    if t:
        n = len(t['elements']) * (t['nrho'] + t['nr']) + len(t['pair']) * t['nr']
    nt = len(EK.model_elements(m)) >= 2 or len(m['pairs']) >= 1
    return dict(outcome='ok:%s:%d:%d' % (route, len(EK.model_elements(m)), len(m['pairs'])) if not viol else 'violation',
                nontrivial=nt, evals=max(1, n), violations=viol)
