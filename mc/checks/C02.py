"""C02 - DL_POLY TABLE: header, 4-per-record layout, energies and -r dU/dr faithful; nr % 4 != 0 rejected."""
import io

from .. import models as M, pairkit as PK, routes as R
from ..readers import pair as RD

PROPERTY = 'C02'
LEVEL = 'exploration'
RULE = ('cases = pair models (1..3 potentials x labels) x grids with nr a multiple of 4 x 4 routes x target spelling '
        '{DL_POLY, DLPOLY}, a (cutoff, nr) lattice sweep, and every nr in 3..41 not divisible by 4 (x routes) for the rejection '
        'rule; every case executed; evaluations = table values compared; non-trivial = every accepted table '
        '(curved, pairwise distinct potentials, >= 8 grid points) and every rejection case')
RULE += "; the same pair space as C01 (objects, numpy / abs() callables, long labels, pre-filled / symlinked OUTPUT_FILE, failed predecessor) plus SI-unit potentials with the caller's derivative step h, magnitudes below 1e-99, and the rejection rule for an empty potential list; row counts that are not stated but derived (the default 1001, cutoff / dr) are rejected alike; 15 pairs of two-letter labels; cutoff + dr with a cutoff that is not a whole multiple of the step (derived row count divisible by four); Potential(.., h=) with h from 1e-3 to 0.1 on grids finer than h/2 (quadratic, exact central difference)"
ASSUMPTIONS = [
    'reference closed forms are the documented formulas (see C01)',
    'DL_POLY TABLE layout as encoded in mc/readers/pair.py: title (80 blanks), (2e15.8,i10), per potential (2a8) then ngrid/4 + ngrid/4 records (4e15.8)',
    'printed-precision rule: one unit of the 8th significant digit + 1e-9 relative; numerical-derivative error model for formula potentials',
    'nr = 4 (delpot = cutoff/0) is outside the statement formula and handled by C16',
]
BOUNDS = {'quick': 'potentials/model <= 3; 6 model grids (nr in 8..100); lattice 7 cutoffs x 6 row counts; rejection nr in 3..41',
          'thorough': 'potentials/model <= 3; 45 model grids; lattice 150 cutoffs x 12 row counts (8..2000); rejection nr in 3..41 and 101..103, 1001..1003'}


def cases(tier):
    out = []
    for c in PK.pair_cases(tier, mult4=True, si=True):
        c['spelling'] = 'DL_POLY' if (c['nr'] // 4 + len(c['pots'])) % 2 else 'DLPOLY'
        out.append(c)
    bad = [n for n in range(3, 42) if n % 4]
    if tier != 'quick':
        bad += [101, 102, 103, 1001, 1002, 1003]
    for n in bad:
        for route in PK.ROUTES:
            for sp in ('DL_POLY', 'DLPOLY'):
                if route in ('cls', 'wp') and sp == 'DLPOLY':
                    continue
                out.append(dict(route=route, cutoff=6.5 if n % 2 else 10.0, nr=n, pots=[['A', 'B', 'buck']], spelling=sp, reject=True))
    # a function that is not a number beyond some separation (e.g. sqrt(1 - (r/rc)^2) in the formula language): the table says so, it does not invent zeros
    for route in ('cls', 'wp'):
        for nr in (8, 16, 40):
            out.append(dict(route=route, cutoff=2.0, nr=nr, pots=[['A', 'B', 'nan-beyond-1.1']], spelling='DL_POLY', nan=True))
    # the rule applies to the row count USED, however it comes about: the documented default (1001 rows) when nr is not given, a count derived from cutoff and dr
    for sp in ('DL_POLY', 'DLPOLY'):
        for lines in (['cutoff : 6.5'], [], ['cutoff : 1.0', 'dr : 0.1'], ['cutoff : 2.5', 'dr : 0.25'], ['dr : 0.01']):
            for route in ('cfg', 'potable'):
                out.append(dict(route=route, cutoff=0.0, nr=0, pots=[['A', 'B', 'buck']], spelling=sp, reject=True, tab_lines=lines))
    # cutoff + dr where the cutoff is NOT a whole multiple of the step and the derived row count is divisible by four: the table still ends at the
    # cutoff that was written in the file (cutpot = cutoff, delpot = cutoff / (ngrid - 4))
    from decimal import Decimal
    for cut in ('10.035', '6.5', '2.0', '7.77', '1.0', '12.3456'):
        for dr in ('0.01', '0.0129', '0.013', '0.0071', '0.05', '0.3', '0.0333', '0.21'):
            q = Decimal(cut) / Decimal(dr)
            if q != int(q) and (int(q) + 1) % 4 == 0 and int(q) + 1 >= 8:      # (a 4-row TABLE has no grid: refused)
                for sp in ('DL_POLY', 'DLPOLY'):
                    out.append(dict(derived=True, cutoff=float(cut), cut=cut, dr=dr, nr=int(q) + 1, pots=[['A', 'B', 'buck']], spelling=sp, route='cfg'))
    # the caller's derivative step h (Potential(..., h=...)) is used as a CENTRAL difference at every row, also where r < h/2:
    # for a quadratic the central difference is exact whatever h is
    for route in ('cls', 'wp'):
        for h in (0.1, 0.02, 1e-3):
            for cutoff, nr in ((10.0, 1004), (1.0, 104), (2.0, 44)):
                out.append(dict(hstep=h, route=route, cutoff=cutoff, nr=nr))
    # the rule does not depend on what is tabulated: an empty potential list
    for n in (5, 6, 7, 9, 10, 11):
        for route in ('cls', 'wp'):
            out.append(dict(route=route, cutoff=6.5, nr=n, pots=[], spelling='DL_POLY', reject=True))
    return out


def V(viol, sig, msg):
    viol.append(dict(sig=sig, msg=msg, detail={}))


def run_reject(case):
    """a row count not divisible by four is rejected instead of producing a file"""
    import atsim.potentials as ap
    from atsim.potentials.pair_tabulation import DLPoly_PairTabulation
    from atsim.potentials._dlpoly_writeTABLE import WritePotentialException
    from atsim.potentials.config._common import ConfigurationException
    viol = []
    route, nr, cutoff = case['route'], case['nr'], case['cutoff']
    if route in ('cls', 'wp'):
        objs = PK.build_objs(case['pots'])
        fp = io.StringIO()
        try:
            if route == 'cls':
                DLPoly_PairTabulation(objs, cutoff, nr).write(fp)
            else:
                ap.writePotentials('DL_POLY', objs, cutoff, nr, fp)
            V(viol, 'not-rejected', 'nr=%d accepted by %s: %d bytes written' % (nr, route, len(fp.getvalue())))
        except WritePotentialException:
            if fp.getvalue():
                V(viol, 'rejected-but-wrote', 'nr=%d rejected but %d bytes were written first' % (nr, len(fp.getvalue())))
        return dict(outcome='rejected:' + route, nontrivial=True, violations=viol)
    ini = PK.ini_for(case, case['spelling'])
    if 'tab_lines' in case:
        ini = '[Tabulation]\ntarget : %s\n%s\n[Pair]\nA-B : as.buck 1000.0 0.3 32.0\n' % (case['spelling'], ''.join(l + '\n' for l in case['tab_lines']))
        nr = 'derived from %r' % (case['tab_lines'],)
    if route == 'cfg':
        try:
            tab = R.config_read(ini)
            data = R.write_tabulation(tab)
            V(viol, 'not-rejected', 'nr=%s accepted by Configuration.read (%d bytes)' % (nr, len(data)))
        except ConfigurationException:
            pass
        return dict(outcome='rejected:cfg', nontrivial=True, violations=viol)
    res = R.potable(ini)
    if res.exc is not None:
        raise res.exc
    if not res.config_error:
        V(viol, 'not-rejected', 'potable nr=%s target=%s: exit status %r, stderr %r' % (nr, case['spelling'], res.status, res.stderr[-200:]))
    if res.out_exists and res.out_bytes:
        V(viol, 'rejected-but-wrote', 'potable nr=%s: output file has %d bytes' % (nr, len(res.out_bytes)))
    return dict(outcome='rejected:potable', nontrivial=True, violations=viol)


def check_table(case, t):
    viol = []
    cutoff, nr, pots, route = case['cutoff'], case['nr'], case['pots'], case['route']
    delpot = cutoff / (nr - 4.0)
    if t['ngrid'] != nr:
        V(viol, 'header-ngrid', 'header ngrid=%d, expected row count %d' % (t['ngrid'], nr))
        return viol
    if abs(t['delpot'] - delpot) > t['udelpot'] + 1e-9 * delpot:
        V(viol, 'header-delpot', 'header delpot=%r, expected cutoff/(ngrid-4)=%r' % (t['delpot'], delpot))
    if abs(t['cutpot'] - cutoff) > t['ucutpot'] + 1e-9 * cutoff:
        V(viol, 'header-cutpot', 'header cutpot=%r, expected cutoff=%r' % (t['cutpot'], cutoff))
    if len(t['blocks']) != len(pots):
        V(viol, 'block-count', 'expected %d potential blocks, found %d' % (len(pots), len(t['blocks'])))
        return viol
    for (a, b, name), blk in zip(pots, t['blocks']):
        if (blk['a'], blk['b']) not in ((a, b), (b, a)):
            V(viol, 'labels', 'block headed %r %r, expected %s %s' % (blk['a'], blk['b'], a, b))
        fn, numeric, _d2 = PK.ref(name, route)
        for k in range(1, nr + 1):
            rr = k * delpot
            if PK.ill_conditioned(name, route, rr):
                continue
            j = fn(rr)
            E, uE = blk['energies'][k - 1]
            dr_slack = (4 + k) * M.EPS * rr      # an r obtained by k accumulated additions may differ from k*delpot by this much
            if abs(E - j.v) > uE + 1e-9 * abs(j.v) + abs(j.d1) * dr_slack:
                V(viol, 'energy', '%s-%s (%s) k=%d r=%r: energy %r, reference %r' % (a, b, name, k, rr, E, j.v))
                break
            G, uG = blk['forces'][k - 1]
            refG = -rr * j.d1
            allow = rr * PK.force_allowance(name, route, rr, 0.0) + uG + 1e-9 * abs(refG) + (abs(j.d1) + rr * abs(j.d2)) * dr_slack
            if abs(G - refG) > allow:
                V(viol, 'force', '%s-%s (%s) k=%d r=%r: force field %r, reference -r dV/dr=%r (allowance %.3g)' % (a, b, name, k, rr, G, refG, allow))
                break
    return viol


def run_nan(case):
    import atsim.potentials as ap
    import math
    from atsim.potentials.pair_tabulation import DLPoly_PairTabulation
    rc = 1.1

    def f(r):
        return 2.0 * math.exp(-r) if r <= rc else float('nan')
    f.deriv = lambda r: -2.0 * math.exp(-r) if r <= rc else float('nan')
    fp = io.StringIO()
    pots = [ap.Potential('A', 'B', f)]
    if case['route'] == 'cls':
        DLPoly_PairTabulation(pots, case['cutoff'], case['nr']).write(fp)
    else:
        ap.writePotentials('DL_POLY', pots, case['cutoff'], case['nr'], fp)
    viol = []
    toks = fp.getvalue().split('\n', 3)[3].split()
    nr = case['nr']
    delpot = case['cutoff'] / (nr - 4.0)
    if len(toks) != 2 * nr:
        V(viol, 'format-error', 'expected %d values, found %d' % (2 * nr, len(toks)))
        return dict(outcome='violation', nontrivial=True, evals=1, violations=viol)
    for k in range(1, nr + 1):
        r = k * delpot
        for which, tok, want in (('energy', toks[k - 1], f(r)), ('force', toks[nr + k - 1], -r * f.deriv(r))):
            got = float(tok)
            if abs(r - rc) < 1e-9:
                continue
            if math.isnan(want) != math.isnan(got) or (not math.isnan(want) and abs(got - want) > 1e-6 * (abs(want) + 1e-3)):
                V(viol, 'not-a-number-%s' % which, 'k=%d r=%r: %s field %r, the function gives %r' % (k, r, which, tok, want))
                return dict(outcome='violation', nontrivial=True, evals=k, violations=viol)
    return dict(outcome='ok:nan', nontrivial=True, evals=2 * nr, violations=viol)


def run_derived(case):
    ini = M.pair_ini(case['spelling'], [(a, b, M.lib_by_name(n)[0]) for a, b, n in case['pots']], case['cutoff'], case['nr'])
    assert ini.count('nr : %d\n' % case['nr']) == 1 and ini.count('cutoff : ') == 1
    ini = ini.replace('nr : %d\n' % case['nr'], 'dr : %s\n' % case['dr'])
    import re
    ini = re.sub(r'cutoff : \S+', 'cutoff : ' + case['cut'], ini)
    text = R.write_tabulation(R.config_read(ini))
    try:
        t = RD.read_dlpoly_table(text)
    except RD.FormatError as e:
        return dict(outcome='format-error', nontrivial=True, violations=[dict(sig='format-error', msg='unreadable DL_POLY TABLE: %s' % e, detail={'text': text[:1500]})])
    viol = check_table(case, t)
    for v in viol:
        v['msg'] = 'cutoff : %s with dr : %s (not a whole multiple; %d rows): %s' % (case['cut'], case['dr'], case['nr'], v['msg'])
    return dict(outcome='ok:derived' if not viol else 'violation', nontrivial=True, evals=2 * t['ngrid'], violations=viol)


def run_hstep(case):
    import atsim.potentials as ap
    from atsim.potentials.pair_tabulation import DLPoly_PairTabulation
    h, nr = case['hstep'], case['nr']

    def f(r):
        return 3.0 - 2.0 * r + 0.5 * r * r
    fp = io.StringIO()
    pots = [ap.Potential('A', 'B', f, h=h)]
    if case['route'] == 'cls':
        DLPoly_PairTabulation(pots, case['cutoff'], nr).write(fp)
    else:
        ap.writePotentials('DL_POLY', pots, case['cutoff'], nr, fp)
    viol = []
    t = RD.read_dlpoly_table(fp.getvalue())
    delpot = case['cutoff'] / (nr - 4.0)
    for k in range(1, nr + 1):
        r = k * delpot
        G, uG = t['blocks'][0]['forces'][k - 1]
        want = -r * (-2.0 + r)
        if abs(G - want) > uG + 1e-6 * abs(want) + r * 50 * M.EPS * 3.0 / h:
            V(viol, 'force-numerical-step', 'Potential(.., h=%r), V = 3 - 2r + r^2/2, k=%d r=%r: force field %r, -r dV/dr = %r (a central difference over h is exact for a quadratic)' % (h, k, r, G, want))
            break
    return dict(outcome='ok:hstep' if not viol else 'violation', nontrivial=True, evals=nr, violations=viol)


def run_case(case):
    if case.get('nan'):
        return run_nan(case)
    if case.get('derived'):
        return run_derived(case)
    if case.get('hstep'):
        return run_hstep(case)
    if case.get('reject'):
        return run_reject(case)
    text = PK.produce(case, 'DL_POLY', ini_target=case['spelling'])
    try:
        t = RD.read_dlpoly_table(text)
    except RD.FormatError as e:
        return dict(outcome='format-error', nontrivial=True,
                    violations=[dict(sig='format-error', msg='unreadable DL_POLY TABLE: %s' % e, detail={'text': text[:1500]})])
    viol = check_table(case, t)
    return dict(outcome='ok:%s:%d' % (case['route'], len(t['blocks'])) if not viol else 'violation', nontrivial=True,
                evals=2 * t['ngrid'] * len(t['blocks']), violations=viol)
