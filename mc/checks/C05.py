"""C05 - DL_POLY TABEAM: declared function count, block headers and values are faithful."""
import itertools

from .. import eamkit as EK
from ..readers import eam as RE
from ..readers.pair import FormatError

PROPERTY = 'C05'
LEVEL = 'exploration'
RULE = ('cases = EAM and Finnis-Sinclair models over every ordered subset of 1..3 (thorough 4) elements x every subset of declared '
        'element pairs (orientation patterns, listing orders) x [FS: density-entry subsets] x grids (nr, nrho incl. 2,3,4,5,7,8 so the '
        'last record holds 1..4 values, and a (cutoff, n) lattice sweep) x route {class, writeTABEAM*, Configuration.read, potable}; '
        'every case executed; non-trivial = >= 2 elements or >= 1 declared pair')
RULE += '; label / foreign-pair models as C03 (incl. Fe2 / Fe10), title= strings starting with block keywords, assigned-after-construction and numpy-returning functions, lazily computed density mappings, density dictionaries with extra species, (cutoff, n) sweep; values of 1e-127 .. 1e120; the grid itself: writeTABEAM / writeTABEAMFinnisSinclair given staircase functions with a step at every grid point float(i)*step (8 x 8 (step, rows) choices) - any other evaluation point changes an integer in the table'
ASSUMPTIONS = [
    'TABEAM layout as DL_POLY reads it (mc/readers/eam.py): title, count, blocks pair/embe/dens with header "kind species n x0 x1" and exactly n values, 4 per record',
    'values printed with %f: tolerance 1 unit of the 6th decimal + 1e-9 relative',
    'block order is not part of the statement; counts, uniqueness, headers and values are',
]
BOUNDS = {'quick': 'elements <= 3; routes rotated per model', 'thorough': 'elements <= 4; all routes'}

FSUB = {1: None}


def fs_dens_subsets(els, k):
    """a deterministic, varied choice of declared A->B entries for model number k (all n^2 ordered pairs as bitmask k)"""
    allp = ['%s->%s' % (a, b) for a in els for b in els]
    n = len(allp)
    mask = k % (1 << n)
    sub = [p for i, p in enumerate(allp) if (mask >> i) & 1]
    return sub


def cases(tier):
    out = []
    sizes = (1, 2, 3) if tier == 'quick' else (1, 2, 3, 4)
    G = EK.grids(tier)
    k = 0
    for fs in (False, True):
        tgt = 'DL_POLY_EAM_fs' if fs else 'DL_POLY_EAM'
        for els in EK.ordered_subsets(EK.UNIVERSE, sizes):
            up = EK.unordered_pairs(els)
            for s in range(len(up) + 1):
                if len(els) == 4 and 1 < s < 10:
                    continue
                for sub in itertools.combinations(up, s):
                    for pat in (0, 2):
                        order = EK.orders(EK.orient(sub, pat))[k % max(1, len(EK.orders(sub)))]
                        k += 1
                        nr, nrho = G[k % len(G)]
                        cutoff, cutoff_rho = EK.CUTS[k % len(EK.CUTS)]
                        if fs:
                            dens = fs_dens_subsets(els, k * 2654435761)
                            if k % 5 == 0:
                                dens = ['%s->%s' % (a, b) for a in els for b in els]
                            if k % 2:
                                dens = dens[::-1]
                            # every embedding species must stay a model element; elements only come from embed + density keys
                        else:
                            dens = list(els) if k % 3 else list(reversed(els))
                        m = dict(fs=fs, embed=list(els) if k % 4 else list(reversed(els)), dens=dens, pairs=[list(p) for p in order],
                                 species='builtin', nr=nr, cutoff=cutoff, nrho=nrho, cutoff_rho=cutoff_rho)
                        routes = ['cls', 'proc', 'cfg', 'potable'] if tier != 'quick' else [('cls', 'proc')[k % 2], ('cfg', 'potable')[(k // 2) % 2]]
                        for route in routes:
                            out.append(dict(m=m, route=route, target=tgt))
    for fs in (False, True):
        for m in EK.big_models(fs, tier):
            for route in ('cls', 'proc', 'cfg', 'potable'):
                out.append(dict(m=m, route=route, target='DL_POLY_EAM_fs' if fs else 'DL_POLY_EAM'))
    for fs in (False, True):
        for m in EK.api_option_models(fs):
            if 'comments' in m or 'header_cutoff' in m:
                continue
            for route in (('proc',) if 'title' in m else ('cls', 'proc')):
                out.append(dict(m=m, route=route, target='DL_POLY_EAM_fs' if fs else 'DL_POLY_EAM'))
    for fs in (False, True):
        for i, m in enumerate(EK.label_models(fs, tier)):
            for route in (('cls', 'proc', 'cfg', 'potable') if tier != 'quick' else (('cls', 'proc')[i % 2], ('cfg', 'potable')[(i // 2) % 2])):
                out.append(dict(m=m, route=route, target='DL_POLY_EAM_fs' if fs else 'DL_POLY_EAM'))
    for fs in (False, True):
        for m in EK.big_grid_models(fs):
            for route in (('cls', 'potable') if tier == 'quick' else ('cls', 'proc', 'cfg', 'potable')):
                out.append(dict(m=m, route=route, target='DL_POLY_EAM_fs' if fs else 'DL_POLY_EAM', big=True))
    for fs in (False, True):
        for m in EK.extreme_models(fs)[:2]:          # values of 1e-127 .. 1e120 inside the tabulated range
            for route in ('cls', 'potable'):
                out.append(dict(m=m, route=route, target='DL_POLY_EAM_fs' if fs else 'DL_POLY_EAM'))
    # the grid itself: staircase functions with a step at every grid point, every pairing of 8 (step, rows) choices for the two grids
    for g1 in EK.GRID_EXACT:
        for g2 in EK.GRID_EXACT:
            for fs in (False, True):
                out.append(dict(kind='grid-exact', rho=list(g1), r=list(g2), fs=fs))
    # Python API with density dictionaries holding more species than are tabulated (objects re-used from a larger system)
    for els in (['Al'], ['Cu', 'Al'], ['Fe', 'Al', 'Cu']):
        for extra in (['Ni'], ['Ni', 'Ag']):
            allp = ['%s->%s' % (a, b) for a in els for b in els]
            m = dict(fs=True, embed=list(els), dens=allp, pairs=[[els[0], els[-1]]], species='builtin', nr=4, cutoff=2.5, nrho=3, cutoff_rho=50.0, extra_dict_species=extra)
            for route in ('cls', 'proc'):
                out.append(dict(m=m, route=route, target='DL_POLY_EAM_fs'))
    # grid sweep: 2-element model on a (cutoff, n) lattice -- float-awkward steps
    cut = [c / 10.0 for c in range(1, 151, 1 if tier != 'quick' else 7)] + [9.99, 0.05]
    ns = [2, 3, 4, 5, 6, 7, 8, 9, 13, 100, 101, 1001] if tier == 'quick' else list(range(2, 40)) + [100, 101, 500, 1000, 1001, 2001]
    for fs in (False, True):
        for i, c in enumerate(cut):
            for j, n in enumerate(ns):
                els = ['Cu', 'Al']
                m = dict(fs=fs, embed=els, dens=(['Cu->Al', 'Al->Al'] if fs else els), pairs=[['Al', 'Cu']], species='builtin',
                         nr=n, cutoff=c, nrho=ns[(j + 3) % len(ns)], cutoff_rho=cut[(i * 7 + 3) % len(cut)] * 10)
                out.append(dict(m=m, route=('cls', 'proc', 'cfg')[(i + j) % 3], target='DL_POLY_EAM_fs' if fs else 'DL_POLY_EAM', sweep=True))
    return out


def check_tabeam(m, route, text, fs):
    viol = []

    def V(sig, msg):
        viol.append(dict(sig=sig, msg=msg, detail={}))
    try:
        t = RE.read_tabeam(text)
    except FormatError as e:
        V('format-error', 'unreadable TABEAM: %s' % e)
        return viol, None
    els = EK.model_elements(m)
    n = len(els)
    want = 3 * n * (n + 1) // 2 if fs else n * (n + 5) // 2
    if t['count'] != len(t['blocks']):
        V('count-vs-blocks', 'declared %d functions, %d blocks follow' % (t['count'], len(t['blocks'])))
    if len(t['blocks']) != want:
        V('block-number', '%d blocks for %d elements, expected %d' % (len(t['blocks']), n, want))
    ref = EK.ref_functions(m, EK.semantics(route))
    drho = m['cutoff_rho'] / (m['nrho'] - 1)
    dr = m['cutoff'] / (m['nr'] - 1)
    seen = {}
    for b in t['blocks']:
        kind, sp = b['kind'], b['species']
        if any(s not in els for s in sp):
            V('unknown-species', '%s block names %r, model elements %r' % (kind, sp, els))
            continue
        if kind == 'pair':
            key = ('pair', tuple(sorted(sp)))
            f, step, npt = ref['phi'](sp[0], sp[1]), dr, m['nr']
        elif kind == 'embe':
            key = ('embe', sp)
            f, step, npt = ref['F'][sp[0]], drho, m['nrho']
        else:
            key = ('dens', sp)
            if fs:
                if len(sp) != 2:
                    V('dens-header', 'EEAM dens block must name two species, found %r' % (sp,))
                    continue
                f = ref['rho'][(sp[0], sp[1])]
            else:
                if len(sp) != 1:
                    V('dens-header', 'EAM dens block must name one species, found %r' % (sp,))
                    continue
                f = ref['rho'][sp[0]]
            step, npt = dr, m['nr']
        if key in seen:
            V('duplicate-block', 'function %r tabulated twice' % (key,))
        seen[key] = True
        if b['n'] != npt:
            V('header-n', '%s %s: header n=%d, grid has %d points' % (kind, ' '.join(sp), b['n'], npt))
            continue
        if b['x0'] != 0.0:
            V('header-x0', '%s %s: start %r, expected 0' % (kind, ' '.join(sp), b['x0']))
        x1 = (npt - 1) * step
        if abs(b['x1'] - x1) > b['ux1'] + 1e-9 * x1:
            V('header-x1', '%s %s: end %r, expected (n-1)*step=%r' % (kind, ' '.join(sp), b['x1'], x1))
        for i, (v, u) in enumerate(b['values']):
            r = f(i * step).v
            if abs(v - r) > u + 1e-9 * abs(r):
                V('value:' + kind, '%s %s: value %d (x=%r) = %r, reference %r' % (kind, ' '.join(sp), i, i * step, v, r))
                break
    # exactly one of each required function
    need = [('pair', tuple(sorted(p))) for p in EK.unordered_pairs(els)] + [('embe', (e,)) for e in els]
    need += [('dens', (a, b)) for a in els for b in els] if fs else [('dens', (e,)) for e in els]
    need = [(k, tuple(sorted(s)) if k == 'pair' else s) for k, s in need]
    for k in need:
        if k not in seen:
            V('missing-block', 'no block for %r' % (k,))
    return viol, t


def run_grid_exact(case):
    """writeTABEAM / writeTABEAMFinnisSinclair are handed the steps themselves: row i of every block is the function at float(i)*step"""
    import io
    import atsim.potentials as ap
    (drho, nrho), (dr, nr), fs = case['rho'], case['r'], case['fs']
    pots, eam = EK.grid_exact_objects(nrho, drho, nr, dr, fs)
    out = io.StringIO()
    (ap.writeTABEAMFinnisSinclair if fs else ap.writeTABEAM)(nrho, drho, nr, dr, eam, pots, out)
    viol = []
    try:
        t = RE.read_tabeam(out.getvalue())
    except FormatError as e:
        return dict(outcome='violation', nontrivial=True, evals=1, violations=[dict(sig='format-error', msg='unreadable TABEAM: %s' % e, detail={})])
    n = 0
    for b in t['blocks']:
        step, cnt = (drho, nrho) if b['kind'] == 'embe' else (dr, nr)
        got = [v for v, _u in b['values']]
        n += len(got)
        want = [float(i + 1) for i in range(cnt)]
        if got != want:
            i = [k for k, (a, c) in enumerate(zip(got, want)) if a != c][0] if len(got) == len(want) else min(len(got), len(want))
            viol.append(dict(sig='grid-position:%s' % b['kind'], msg='%s block, step %r, %d points: row %d holds the staircase value %r, at %d*step = %r the staircase is %r (the function was evaluated at another separation)'
                             % (b['kind'], step, cnt, i, got[i] if i < len(got) else None, i, float(i) * step, want[i] if i < len(want) else None), detail={}))
            break
    return dict(outcome='ok:grid-exact' if not viol else 'violation', nontrivial=True, evals=max(1, n), violations=viol)


def run_case(case):
    if case.get('kind') == 'grid-exact':
        return run_grid_exact(case)
    m, route, tgt = case['m'], case['route'], case['target']
    text = EK.produce(m, tgt, route)
    viol, t = check_tabeam(m, route, text, m['fs'])
    n = sum(b['n'] for b in t['blocks']) if t else 1
    nt = len(EK.model_elements(m)) >= 2 or len(m['pairs']) >= 1
    return dict(outcome='ok:%s:%s:%d' % (tgt, route, len(EK.model_elements(m))) if not viol else 'violation', nontrivial=nt, evals=max(1, n), violations=viol)
