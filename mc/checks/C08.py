"""C08 - multi-range potentials select exactly the range that contains r."""
import itertools, math

from .. import routes as R, models as M
from ..refmodel import expr as X
from ..refmodel.expr import form

PROPERTY = 'C08'
LEVEL = 'exploration'
RULE = ('cases = every set of 1..4 (thorough 5) ranges with (marker, start) drawn without repetition from {>, >=} x {0,1,2,3} '
        '(+ -inf through the Python API), each range carrying its own quadratic; inside a case EVERY listing order of the set is '
        'built through Multi_Range_Potential_Form / create_Multi_Range_Potential_Form and through potable text (first range '
        'optionally unmarked) and evaluated (value, deriv, deriv2) at r in {-1,0,.5,..,3.5} + nextafter(start, +-inf) in ascending, '
        'descending and interleaved order on the same object; non-trivial = set with >= 2 ranges')
RULE += '; 9 constructions per listing order: class, factory, default_value=25 (also with one zero() range), public range_defns setter after other ranges, ranges without analytic derivatives, ranges offering .deriv only (deriv2 offered iff some range offers it), Multi_Range_Defn instances shared with two other potentials, potable text (marked / first range unmarked); sets that repeat a definition; 9, 10, 12 and 14 ranges in five structured orders; the caller\'s idioms on the public range_defns property (list from the getter extended and assigned back, +=, generator / reversed() over the current list) and copies (copy.deepcopy of class, factory and potable objects, copy.copy given other ranges) must select like a fresh object; range starts of type numpy.float64 and int'
ASSUMPTIONS = [
    'two ranges with identical marker AND start: for r strictly above the start either may serve (the statement cannot single one out); at r == start of two exclusive ranges neither contains r and the range below serves',
    'for r strictly above a start shared by a ">=" and a ">" range the statement does not say which is used: either is accepted, '
    'but value, deriv and deriv2 must come from the same range and not depend on the listing or evaluation order',
    'quadratics with pairwise distinct value, slope and curvature identify the selected range from the observed numbers',
]
BOUNDS = {'quick': 'sets of <= 4 ranges: 162 sets, 2080 ordered lists, x 18 constructions x 3 evaluation orders; 4 sets with repeated definitions; 12 sets of 9-14 ranges',
          'thorough': 'sets of <= 6 ranges (all listing orders, 720 per 6-set); <= 4 ranges incl. start -inf through the API; 9-14 ranges in 5 structured orders'}

STARTS = [0.0, 1.0, 2.0, 3.0]


def quad(i):
    return form('polynomial', 1.5 + 2.0 * i, -0.7 + 0.45 * i, 0.3 + 0.11 * i)


def cases(tier):
    out = []
    alphabet = [(m, s) for s in STARTS for m in ('>', '>=')]
    kmax = 4 if tier == 'quick' else 6
    for k in range(1, kmax + 1):
        for sub in itertools.combinations(range(len(alphabet)), k):
            out.append(dict(ranges=[[alphabet[i][0], alphabet[i][1], i] for i in sub], api_inf=False))
    # ranges that repeat a definition (a zero core and a zero tail around something else), every listing order
    for rg in ([['>=', 0.0, 0], ['>=', 2.0, 0], ['>', 1.0, 1]], [['>', 0.0, 2], ['>=', 1.0, 3], ['>', 2.0, 2], ['>=', 3.0, 3]], [['>=', 0.0, 1], ['>', 1.0, 1], ['>=', 2.0, 4], ['>', 3.0, 1]],
               [['>', 0.0, 0], ['>', 1.0, 5], ['>', 2.0, 5], ['>', 3.0, 0], ['>=', 0.5, 5]]):
        out.append(dict(ranges=rg, api_inf=False))
    # two exclusive ranges that share a start s (an unmarked first range followed by an explicit '>0' one; a definition pasted twice): which of them serves
    # r > s is not determined (either is accepted, consistently for value and derivatives) - but AT r == s neither contains r: the range below, or nothing
    for rg in ([['>', 0.0, 0], ['>', 0.0, 1]], [['>=', 0.0, 0], ['>', 2.0, 1], ['>', 2.0, 2]], [['>', 1.0, 0], ['>', 1.0, 1], ['>=', 1.0, 2]],
               [['>=', 0.0, 3], ['>', 1.0, 0], ['>', 1.0, 1], ['>', 3.0, 2], ['>', 3.0, 4]]):
        out.append(dict(ranges=rg, api_inf=False, dup=True))
    # many ranges (piecewise potentials with one polynomial per knot interval): 9..14 ranges, structured listing orders
    for n in (9, 10, 12, 14):
        for pat in range(3):
            out.append(dict(ranges=[[('>', '>=')[(k + pat) % 2 if pat < 2 else 0], 0.25 * k + (0.0 if k % 3 or pat == 0 else 0.125), k] for k in range(n)], api_inf=False))
    if tier != 'quick':
        alpha2 = [('>', None), ('>=', None)] + alphabet
        for k in range(1, 5):
            for sub in itertools.combinations(range(len(alpha2)), k):
                if not any(alpha2[i][1] is None for i in sub):
                    continue
                out.append(dict(ranges=[[alpha2[i][0], alpha2[i][1], i] for i in sub], api_inf=True))
    return out


def r_lattice(starts):
    rs = [-1.0, 0.0, 0.5, 1.0, 1.5, 2.0, 2.5, 3.0, 3.5]
    for s in starts:
        if s is not None:
            rs += [math.nextafter(s, -math.inf), math.nextafter(s, math.inf)]
    return sorted(set(rs))


def acceptable(ranges, r):
    """indices (into ranges) of the ranges the statement allows at r; [] -> default (0, 0, 0)"""
    cands = []
    for idx, (m, s, _q) in enumerate(ranges):
        st = -math.inf if s is None else s
        if r > st or (m == '>=' and r == st):
            cands.append(idx)
    if not cands:
        return []
    top = max((-math.inf if ranges[i][1] is None else ranges[i][1]) for i in cands)
    best = [i for i in cands if (-math.inf if ranges[i][1] is None else ranges[i][1]) == top]
    return best        # one element, or the (>=, >) pair sharing a start with r strictly above it


def expected(ranges, r):
    out = []
    for i in acceptable(ranges, r):
        j = X.ev_item(quad(ranges[i][2]), r)
        out.append((j.v, j.d1, j.d2))
    return out or [(0.0, 0.0, 0.0)]


def plain_quad(q):
    """the same quadratic as a plain Python callable without .deriv: its derivatives come from the documented numerical fallback"""
    c0, c1, c2 = quad(q)['params']

    def f(r):
        return c0 + c1 * r + c2 * r * r
    return f


def deriv_only_quad(q):
    """the quadratic as a callable that offers .deriv but no .deriv2"""
    c0, c1, c2 = quad(q)['params']

    def f(r):
        return c0 + c1 * r + c2 * r * r
    f.deriv = lambda r: c1 + 2 * c2 * r
    return f


def build_api(order, direct, default=None, setter=False, numeric=False, zero_q=None, shared=False, derivonly=False, idiom=None):
    from atsim.potentials import create_Multi_Range_Potential_Form, Multi_Range_Defn
    from atsim.potentials._multi_range_potential_form import Multi_Range_Potential_Form_Deriv2
    from atsim.potentials import potentialforms as pf

    def callable_for(q):
        if q == zero_q:
            return pf.zero()
        if derivonly and q % 2:
            return deriv_only_quad(q)
        return plain_quad(q) if (numeric and q % 2) else R.api_item(quad(q))
    mkstart = (lambda v: v)
    if idiom == 'numpy-starts':
        import numpy
        mkstart = numpy.float64               # range starts taken from numpy arrays (numpy.float64 is a float)
    elif idiom == 'int-starts':
        mkstart = lambda v: int(v) if (abs(v) != float('inf') and v == int(v)) else v    # noqa
    defs = [Multi_Range_Defn(m, mkstart(float('-inf') if s is None else s), callable_for(q)) for m, s, q in order]
    kw = {} if default is None else {'default_value': default}
    if shared:
        # the same Multi_Range_Defn INSTANCES also serve two other potentials whose further ranges start elsewhere
        obj = Multi_Range_Potential_Form_Deriv2(*defs, **kw)
        o2 = Multi_Range_Potential_Form_Deriv2(defs[0], Multi_Range_Defn('>=', 0.5, R.api_item(quad(7))), Multi_Range_Defn('>', 1.5, R.api_item(quad(6))))
        o3 = create_Multi_Range_Potential_Form(defs[-1], Multi_Range_Defn('>', 2.5, R.api_item(quad(6))), Multi_Range_Defn('>=', -1.0, R.api_item(quad(5))))
        o2(0.75), o3.deriv(2.75)
        return obj
    if idiom == 'append-assign':
        # the list handed out by the property is extended by the caller and assigned back (obj.range_defns += [...] does the same)
        obj = Multi_Range_Potential_Form_Deriv2(*defs[:-1], **kw)
        lst = obj.range_defns
        lst.append(defs[-1])
        obj.range_defns = lst
        return obj
    if idiom == 'iadd':
        obj = Multi_Range_Potential_Form_Deriv2(*defs[1:], **kw)
        obj.range_defns += [defs[0]]
        return obj
    if idiom == 'lazy-assign':
        # a lazy iterable over the current list is assigned (filtering / reversing idioms)
        obj = Multi_Range_Potential_Form_Deriv2(*defs, **kw)
        obj(1.0)
        obj.range_defns = (d for d in obj.range_defns)
        obj.range_defns = reversed(obj.range_defns)
        return obj
    if idiom in ('deepcopy', 'copy'):
        import copy
        obj = Multi_Range_Potential_Form_Deriv2(*defs, **kw) if direct else create_Multi_Range_Potential_Form(*defs, **kw)
        obj(2.0)
        dup = copy.deepcopy(obj) if idiom == 'deepcopy' else copy.copy(obj)
        if idiom == 'copy':
            # the copy is given other ranges: the original keeps its own
            dup.range_defns = [Multi_Range_Defn('>', 0.25, R.api_item(quad(7)))]
            return obj
        obj.range_defns = [Multi_Range_Defn('>', 0.25, R.api_item(quad(7)))]
        return dup
    if setter:
        # built with other ranges first, then re-assigned through the public range_defns property
        other = [Multi_Range_Defn('>', 0.25, R.api_item(quad(7))), Multi_Range_Defn('>=', 2.75, R.api_item(quad(6))), Multi_Range_Defn('>', 5.0, R.api_item(quad(5)))]
        obj = Multi_Range_Potential_Form_Deriv2(*other, **kw)
        obj(1.0), obj.deriv(3.0)
        obj.range_defns = defs
        return obj
    if direct:
        return Multi_Range_Potential_Form_Deriv2(*defs, **kw)
    return create_Multi_Range_Potential_Form(*defs, **kw)


def build_cfg(order, unmark_first):
    parts = []
    for k, (m, s, q) in enumerate(order):
        if k == 0 and unmark_first and m == '>' and s == 0.0:
            parts.append(X.render_item(quad(q)))
        else:
            parts.append('%s%s %s' % (m, X.num(s), X.render_item(quad(q))))
    ini = '[Tabulation]\ntarget : LAMMPS\nnr : 3\ncutoff : 1.0\n\n[Pair]\nA-B : %s\n' % ' '.join(parts)
    return R.config_read(ini).potentials[0].potentialFunction


def close(a, b):
    return abs(a - b) <= 1e-12 * (1.0 + abs(b))


def run_case(case):
    ranges = case['ranges']
    rs = r_lattice([s for _m, s, _q in ranges])
    exp = {r: expected(ranges, r) for r in rs}
    viol = []
    evals = 0
    first_obs = {}

    def V(sig, msg):
        viol.append(dict(sig=sig, msg=msg, detail={}))
    if len(ranges) <= 6:
        perms = list(itertools.permutations(ranges))
    else:
        half = len(ranges) // 2
        perms = [tuple(ranges), tuple(ranges[::-1]), tuple(ranges[half:] + ranges[:half]), tuple(ranges[::2] + ranges[1::2]), tuple(ranges[1::2][::-1] + ranges[::2])]
    sweeps = [rs, rs[::-1], rs[::2] + rs[1::2][::-1]]
    for order in perms:
        objs = [('class', build_api(order, True)), ('factory', build_api(order, False)),
                ('class default_value=25', build_api(order, True, default=25.0)), ('range_defns setter', build_api(order, True, setter=True)),
                ('factory with numerical ranges', build_api(order, False, numeric=True)),
                ('factory with deriv-only ranges', build_api(order, False, derivonly=True)),
                ('class default_value=25 and a zero() range', build_api(order, True, default=25.0, zero_q=order[0][2])),
                ('class, range definitions shared with other potentials', build_api(order, True, shared=True)),
                ('class, list from the property extended and assigned back', build_api(order, True, idiom='append-assign')),
                ('class, range_defns += [first]', build_api(order, True, idiom='iadd')),
                ('class, lazy iterables over the current list assigned', build_api(order, True, idiom='lazy-assign')),
                ('copy.deepcopy of the class object (original re-assigned afterwards)', build_api(order, True, idiom='deepcopy')),
                ('copy.deepcopy of the factory object', build_api(order, False, idiom='deepcopy')),
                ('class object whose copy.copy was given other ranges', build_api(order, True, idiom='copy')),
                ('class, range starts of type numpy.float64', build_api(order, True, idiom='numpy-starts')),
                ('factory, range starts of type int', build_api(order, False, idiom='int-starts'))]
        if not case['api_inf'] and build_cfg(order, False) is not None:
            objs.append(('potable', build_cfg(order, False)))
            import copy as _copy
            objs.append(('copy.deepcopy of the potable potential', _copy.deepcopy(build_cfg(order, False))))
            if order[0][0] == '>' and order[0][1] == 0.0:
                objs.append(('potable-unmarked', build_cfg(order, True)))
        for how, f in objs:
            for sw, sweep in enumerate(sweeps):
                for r in sweep:
                    evals += 1
                    if 'deriv-only' in how:
                        # ranges with odd code offer .deriv only: the composite offers deriv2 iff some range does (whatever the listing order)
                        want2 = any(q % 2 == 0 for _m, _s, q in order)
                        if hasattr(f, 'deriv2') != want2 or not hasattr(f, 'deriv'):
                            V('deriv2-offer-depends-on-listing', '%s, ranges listed %r: deriv2 %s although %s' % (how, [(m, s, q) for m, s, q in order], 'offered' if hasattr(f, 'deriv2') else 'not offered',
                                                                                                          'a range offers it' if want2 else 'no range offers it'))
                            break
                        got = (f(r), f.deriv(r), f.deriv2(r) if want2 else None)
                        ok = any(close(got[0], e3[0]) and close(got[1], e3[1]) and (got[2] is None or abs(got[2] - e3[2]) <= 1e-5 * (1 + abs(e3[2]) + abs(e3[1]))) for e3 in exp[r])
                        if not ok:
                            V('wrong-range', '%s, ranges listed %r, r=%r: (value, deriv, deriv2) = %r, allowed %r' % (how, [(m, s) for m, s, _q in order], r, got, exp[r]))
                            break
                        continue
                    if 'numerical' in how and not hasattr(f, 'deriv'):
                        # no range offers an analytic derivative: the composite documentedly offers none either
                        if any(q % 2 == 0 for _m, _s, q in order):
                            V('deriv-not-offered', '%s: a range offers .deriv but the multi-range potential does not' % how)
                            break
                        if not any(close(f(r), e3[0]) for e3 in exp[r]):
                            V('wrong-range', '%s, ranges listed %r, r=%r: value %r, allowed %r' % (how, [(m, s) for m, s, _q in order], r, f(r), exp[r]))
                            break
                        continue
                    got = (f(r), f.deriv(r), f.deriv2(r))
                    want = exp[r]
                    if how.startswith('class default') and not acceptable(ranges, r):
                        want = [(25.0, 0.0, 0.0)]
                    elif 'zero() range' in how:
                        want = [(0.0, 0.0, 0.0) if ranges[i][2] == order[0][2] else e3 for i, e3 in zip(acceptable(ranges, r), exp[r])]
                    if 'numerical' in how:
                        # documented fallback h = 1e-6: first derivative to ~1e-9, second (difference of differences) to ~1e-3
                        ok = any(close(got[0], e3[0]) and abs(got[1] - e3[1]) <= 1e-6 * (1 + abs(e3[1])) and abs(got[2] - e3[2]) <= 5e-2 * (1 + abs(e3[2]) + abs(e3[0])) for e3 in want)
                        if ok:
                            continue
                    ok = any(all(close(g, e) for g, e in zip(got, e3)) for e3 in want)
                    if not ok:
                        # classify
                        if any(close(got[0], e3[0]) for e3 in exp[r]):
                            sig = 'derivative-from-other-range'
                        else:
                            sig = 'wrong-range' if sw == 0 else 'evaluation-order-dependence'
                        V(sig, '%s, ranges listed %r, r=%r (sweep %d): (value, deriv, deriv2) = %r, allowed %r'
                          % (how, [(m, s) for m, s, _q in order], r, sw, got, want))
                        break
                    if how.startswith('class default') or 'numerical' in how:
                        continue
                    key = r
                    if case.get('dup') and len(exp[r]) > 1:
                        continue          # (served by either of two ranges with the same marker and start: the listing may decide)
                    if key in first_obs:
                        if not all(close(g, e) for g, e in zip(got, first_obs[key][0])):
                            V('listing-order-dependence', 'r=%r: %s listed %r gives %r but %s gave %r' % (r, how, [(m, s) for m, s, _q in order], got, first_obs[key][1], first_obs[key][0]))
                            break
                    else:
                        first_obs[key] = (got, '%s listed %r' % (how, [(m, s) for m, s, _q in order]))
                else:
                    continue
                break
            if viol:
                break
        if viol:
            break
    return dict(outcome='ok:%d' % len(ranges) if not viol else 'violation', nontrivial=len(ranges) >= 2, evals=evals, violations=viol)
