"""C11 - any two of nr/dr/cutoff (nrho/drho/cutoff_rho) fix the grid actually tabulated."""
import io, itertools, math
from decimal import Decimal

from .. import routes as R, eamkit as EK, models as M
from ..refmodel import expr as X
from ..readers import pair as RP, eam as RE

PROPERTY = 'C11'
LEVEL = 'exploration'
RULE = ('cases = (i) cutoff+dr: every decimal step with <= 3 decimals in [0.001, 0.5] x every k in 1..2000 (cutoff = the exact decimal k*step), '
        'plus 4-decimal and fine steps x k up to 19999; (ii) nr+dr and cutoff+nr on the same lattices; (iii) the same for nrho/drho/cutoff_rho; '
        '(iv) rejection: all three, step alone, zero / negative / non-numeric values of all six keys; (v) defaults for every subset of omitted keys; '
        '(vi) end-to-end: every tabulation target x (step, count, cutoff) triples incl. float-awkward ones, rows counted and spacing measured with the '
        'independent readers; all through the public ConfigParser / Configuration route; every lattice point evaluated; non-trivial = every pair')
RULE += "; steps with 7 decimals; steps with 11-16 decimals (unit conversions); documented target synonyms; the same triples through the potable command line into a pre-filled OUTPUT_FILE; zero / nan / inf / 1e-320 grid values and all-three-with-a-zero rejected; the tabulation object's nr / cutoff / dr (nrho / cutoff_rho / drho) properties describe the written grid; (cutoff, nr) row-count sweep over every target; the two grids stated independently: every ordered pair of 8 different (step, rows, cutoff) triples (two pairs share the step and differ in rows) for r and rho, each stated 3 ways, for every many-body target; a step alone for one grid next to every acceptable way of stating the other grid is rejected"
ASSUMPTIONS = [
    'decimal text is rendered as the shortest decimal literal (what a user types); k*step is computed exactly with decimal arithmetic',
    'cutoff=(nr-1)*dr is compared as a float product within 2 ulp; dr=cutoff/(nr-1) is observed through the written table',
    'lattices of decimal steps and counts (steps 1e-4..0.5, 2..20000 rows), not all reals',
]
BOUNDS = {'quick': '500 steps x 2000 counts + 24 fine steps x 19999 counts (r grid); half-size lattices for the density grid; 11 targets x 40 triples end-to-end',
          'thorough': 'adds every 4-decimal step (5000) x 2000 counts and all steps x 19999 counts for cutoff+dr'}

TARGETS = ['LAMMPS', 'DLPOLY', 'GULP', 'excel', 'setfl', 'setfl_fs', 'DL_POLY_EAM', 'DL_POLY_EAM_fs', 'excel_eam', 'excel_eam_fs', 'eam_adp']


def dec(s):
    s = format(Decimal(s).normalize(), 'f')
    return s


def cases(tier):
    out = []
    steps3 = [Decimal(k) / 1000 for k in range(1, 501)]
    fine = [Decimal(s) for s in ('0.0001', '0.0002', '0.0003', '0.0004', '0.0005', '0.0006', '0.0007', '0.0008', '0.0009', '0.001', '0.002', '0.0025',
                                 '0.003', '0.005', '0.0075', '0.01', '0.0125', '0.02', '0.05', '0.0105', '0.0011', '0.0033', '0.0101', '0.0015')]
    for st in steps3:
        out.append(dict(kind='lattice', tier=tier, grid='r', step=str(st), k0=1, k1=2000))
    for st in fine:
        out.append(dict(kind='lattice', tier=tier, grid='r', step=str(st), k0=2001 if st in steps3 else 1, k1=19999))
    # steps that need 7 decimals (0.0529177 A = 1 bohr/10, ...): quotients a rational approximation with a small denominator gets wrong
    fine7 = ['0.0529177', '0.0502655', '0.1234567', '0.0100001', '0.3141593', '0.0000001', '0.0000123', '0.2000001', '0.0999999', '0.0033333']
    for st in fine7:
        out.append(dict(kind='lattice', tier=tier, grid='r', step=st, k0=1, k1=3000 if tier == 'quick' else 12000))
        out.append(dict(kind='lattice', tier=tier, grid='rho', step=st, k0=1, k1=1500 if tier == 'quick' else 6000))
    # steps converted from other units (11-16 decimals): a derived cutoff "tidied" to fewer decimals no longer reproduces the step
    for st in ('0.00529177210903', '0.0188972612457', '0.0033333333333333', '0.010000000001', '0.123456789012345'):
        out.append(dict(kind='lattice', tier=tier, grid='r', step=st, k0=1, k1=700 if tier == 'quick' else 5000))
        out.append(dict(kind='lattice', tier=tier, grid='rho', step=st, k0=1, k1=350 if tier == 'quick' else 2500))
    for st in steps3[::2]:
        out.append(dict(kind='lattice', tier=tier, grid='rho', step=str(st), k0=1, k1=1000))
    for st in fine[::2]:
        out.append(dict(kind='lattice', tier=tier, grid='rho', step=str(st), k0=1001 if st in steps3[::2] else 1, k1=12000))
    if tier != 'quick':
        for k in range(1, 5001):
            st = Decimal(k) / 10000
            if st in steps3:
                continue
            out.append(dict(kind='lattice', tier=tier, grid='r', step=str(st), k0=1, k1=2000))
        for st in steps3:
            if st not in fine:
                out.append(dict(kind='lattice', tier=tier, grid='r', step=str(st), k0=2001, k1=19999))
    # (iv) rejection
    for grid in ('r', 'rho'):
        nm = dict(r=('nr', 'dr', 'cutoff'), rho=('nrho', 'drho', 'cutoff_rho'))[grid]
        bad = []
        bad.append(('all-three', {nm[0]: '11', nm[1]: '0.1', nm[2]: '1.0'}))
        bad.append(('all-three-inconsistent', {nm[0]: '12', nm[1]: '0.1', nm[2]: '1.0'}))
        bad.append(('step-alone', {nm[1]: '0.1'}))
        # ... also when the OTHER grid is given (every presence pattern of its three options that is itself acceptable or empty)
        om = ('nrho', 'drho', 'cutoff_rho') if grid == 'r' else ('nr', 'dr', 'cutoff')
        for other in ({om[0]: '21'}, {om[2]: '4.0'}, {om[0]: '21', om[1]: '0.2'}, {om[0]: '21', om[2]: '4.0'}, {om[1]: '0.2', om[2]: '4.0'}):
            bad.append(('step-alone-next-to-%s' % '+'.join(sorted(other)), dict(other, **{nm[1]: '0.1'})))
        for key in nm:
            for val in ('0', '-1', '-0.5', 'abc', '1e', ''):
                d = {nm[0]: '11', nm[2]: '1.0'} if key != nm[1] else {nm[1]: '0.1', nm[0]: '11'}
                d[key] = val
                if key == nm[0] and val == '-0.5':
                    continue
                bad.append(('bad-%s=%r' % (key, val), d))
            for val in ('0.0', '-2'):
                d = {nm[1]: '0.1', nm[2]: '1.0'}
                d[key] = val
                bad.append(('bad2-%s=%r' % (key, val), d))
        # all three given with one of them zero (a zero is not "not given"); values that are not finite numbers; a step too small to count
        for key in nm:
            d = {nm[0]: '11', nm[1]: '0.1', nm[2]: '1.0'}
            d[key] = '0'
            bad.append(('all-three-with-%s=0' % key, d))
        for val in ('nan', 'inf', '-inf', 'NaN'):
            bad.append(('non-finite-%s=%s' % (nm[2], val), {nm[0]: '11', nm[2]: val}))
            bad.append(('non-finite-%s=%s' % (nm[2], val), {nm[1]: '0.1', nm[2]: val}))
            bad.append(('non-finite-%s=%s' % (nm[1], val), {nm[1]: val, nm[2]: '1.0'}))
            bad.append(('non-finite-%s=%s' % (nm[1], val), {nm[1]: val, nm[0]: '11'}))
        bad.append(('step-too-small', {nm[1]: '1e-320', nm[2]: '1.0'}))
        bad.append(('step-too-small', {nm[1]: '1e-30', nm[2]: '1.0'}))
        for name, d in bad:
            out.append(dict(kind='reject', grid=grid, name=name, opts=d))
    # (v) defaults
    for target in ('LAMMPS', 'setfl'):
        for sub in itertools.chain.from_iterable(itertools.combinations(('cutoff', 'nr', 'cutoff_rho', 'nrho'), n) for n in range(5)):
            out.append(dict(kind='defaults', target=target, given=list(sub)))
            # the same with [Variables] entries named like the omitted grid keys (used as ordinary placeholders elsewhere)
            out.append(dict(kind='defaults', target=target, given=list(sub), variables=True))
    # (vi) end-to-end
    triples = [('0.1', 4, '0.3'), ('0.01', 1000, '9.99'), ('0.5', 5, '2.0'), ('0.05', 13, '0.6'), ('0.3', 4, '0.9'), ('0.07', 8, '0.49'),
               ('0.025', 17, '0.4'), ('0.2', 16, '3.0'), ('0.001', 101, '0.1'), ('0.15', 21, '3.0')]
    if tier != 'quick':
        triples += [('0.11', 12, '1.21'), ('0.33', 4, '0.99'), ('0.007', 301, '2.1'), ('0.9', 3, '1.8'), ('0.045', 25, '1.08')]
    for tgt in TARGETS:
        for (st, n, cut) in triples:
            for combo in ('cutoff+dr', 'nr+dr', 'cutoff+nr'):
                nn = n
                if tgt == 'DLPOLY':
                    # DL_POLY needs a multiple of four rows: scale the triple
                    nn = 4 * n
                    cut = dec(Decimal(st) * (nn - 1))
                out.append(dict(kind='e2e', target=tgt, step=st, n=nn, cutoff=cut, combo=combo))
                # documented synonyms of the target name
                for syn, canon in (('DL_POLY', 'DLPOLY'), ('lammps_eam_alloy', 'setfl'), ('LAMMPS_eam_alloy', 'setfl')):
                    if canon == tgt:
                        out.append(dict(kind='e2e', target=tgt, spelling=syn, step=st, n=nn, cutoff=cut, combo=combo))
                if (st, n) in (('0.1', 4), ('0.05', 13), ('0.2', 16)):
                    # the same through the potable command line into an OUTPUT_FILE that already holds a longer, older tabulation
                    out.append(dict(kind='e2e', target=tgt, step=st, n=nn, cutoff=cut, combo=combo, via='potable'))
    # (vi-a2) the two grids are independent: different (step, rows, cutoff) triples for r and rho, every ordered pair of 6 triples, 3 ways of stating each
    t6 = [('0.1', 4, '0.3'), ('0.05', 13, '0.6'), ('0.2', 16, '3.0'), ('0.3', 11, '3.0'), ('0.025', 81, '2.0'), ('0.5', 3, '1.0'),
          ('0.1', 7, '0.6'), ('0.05', 5, '0.2')]          # (... the same step for both grids with different row counts)
    for tgt in TARGETS:
        if tgt in ('LAMMPS', 'DLPOLY', 'GULP', 'excel'):
            continue
        for a_ in t6:
            for b_ in t6:
                if a_ == b_:
                    continue
                for ci, combo in enumerate(('cutoff+dr', 'nr+dr', 'cutoff+nr')):
                    out.append(dict(kind='e2e', target=tgt, step=a_[0], n=a_[1], cutoff=a_[2], combo=combo, rho=[b_[0], b_[1], b_[2], ('cutoff+dr', 'nr+dr', 'cutoff+nr')[(ci + 1) % 3]]))
    # (vi-b) row-count sweep: cutoff + nr on a (cutoff, nr) lattice for every target (the step is then not a short decimal)
    cuts = [Decimal(k) / 10 for k in (range(1, 151, 7) if tier == 'quick' else range(1, 151))] + [Decimal(10), Decimal(12)]
    ns = list(range(3, 41)) + [107, 120, 651]
    for tgt in TARGETS:
        for ci, c in enumerate(cuts):
            for n in ns:
                if tgt == 'DLPOLY' and (n % 4 or n == 4):   # nr = 4 makes delpot = cutoff/0: outside the statement, judged by C16
                    continue
                if tgt.startswith('excel') and tier == 'quick' and (ci + n) % 3:
                    continue
                out.append(dict(kind='e2e', target=tgt, step=None, n=n, cutoff=dec(c), combo='cutoff+nr'))
    return out


def V(viol, sig, msg):
    viol.append(dict(sig=sig, msg=msg, detail={}))


def parse(opts):
    from atsim.potentials.config import ConfigParser
    text = '[Tabulation]\n' + ''.join('%s : %s\n' % kv for kv in opts.items())
    return ConfigParser(io.StringIO(text)).tabulation


_seam = {}


def seam(grid):
    """accelerated route: the internal helper the public .tabulation property delegates to (about 300x cheaper than
    building a ConfigParser); None when a refactoring removed it - the public route is then used for every point"""
    if grid not in _seam:
        try:
            from atsim.potentials.config._config_parser import _TabulationCutoff
            tc = _TabulationCutoff('R_Cutoff') if grid == 'r' else _TabulationCutoff('Density_Cutoff', 'nrho', 'drho', 'cutoff_rho')

            class Sec(dict):
                name = 'Tabulation'
            tc._init_cutoff(Sec({}))
            _seam[grid] = lambda opts: tc._init_cutoff(Sec(opts))
        except Exception:  # noqa
            _seam[grid] = None
    return _seam[grid]


def run_lattice(case):
    viol = []
    grid = case['grid']
    NR, DR, CUT = dict(r=('nr', 'dr', 'cutoff'), rho=('nrho', 'drho', 'cutoff_rho'))[grid]
    st = Decimal(case['step'])
    sts = dec(st)
    stf = float(sts)
    n = 0
    sm = seam(grid) if case.get('tier') == 'quick' else None
    for k in range(case['k0'], case['k1'] + 1):
        cut = dec(st * k)
        cutf = float(cut)
        public = sm is None or k <= 60 or k % 97 == 0
        # cutoff + dr
        if public:
            t = parse({CUT: cut, DR: sts})
            got_nr, got_cut = getattr(t, NR), getattr(t, CUT)
        if sm is not None:
            s_nr, s_cut = sm({CUT: cut, DR: sts})
            if public and (s_nr, s_cut) != (got_nr, got_cut):
                V(viol, 'seam-disagrees', 'internal helper gives %r, public ConfigParser(...).tabulation gives %r for %s %s / %s %s' % ((s_nr, s_cut), (got_nr, got_cut), CUT, cut, DR, sts))
                break
            got_nr, got_cut = s_nr, s_cut
        n += 1
        if got_nr != k + 1 or got_cut != cutf:
            V(viol, 'cutoff+dr', '%s : %s with %s : %s (a whole multiple k=%d) gives %s=%r, %s=%r; expected %d rows ending at %r'
              % (CUT, cut, DR, sts, k, NR, got_nr, CUT, got_cut, k + 1, cutf))
            break
        if (k % 7 == 0 or k < 50) and public:
            # nr + dr
            t = parse({NR: str(k + 1), DR: sts})
            n += 1
            want = k * stf
            if getattr(t, NR) != k + 1 or abs(getattr(t, CUT) - want) > 2 * M.EPS * want:
                V(viol, 'nr+dr', '%s : %d with %s : %s gives %s=%r, %s=%r; expected cutoff (nr-1)*dr = %r' % (NR, k + 1, DR, sts, NR, getattr(t, NR), CUT, getattr(t, CUT), want))
                break
            # cutoff + nr
            t = parse({CUT: cut, NR: str(k + 1)})
            n += 1
            if getattr(t, NR) != k + 1 or getattr(t, CUT) != cutf:
                V(viol, 'cutoff+nr', '%s : %s with %s : %d gives %s=%r, %s=%r' % (CUT, cut, NR, k + 1, NR, getattr(t, NR), CUT, getattr(t, CUT)))
                break
        elif sm is not None and (k % 7 == 0 or k < 50):
            n += 2
            r1 = sm({NR: str(k + 1), DR: sts})
            want = k * stf
            if r1[0] != k + 1 or abs(r1[1] - want) > 2 * M.EPS * want:
                V(viol, 'nr+dr', '%s : %d with %s : %s gives %r; expected cutoff (nr-1)*dr = %r' % (NR, k + 1, DR, sts, r1, want))
                break
            r2 = sm({CUT: cut, NR: str(k + 1)})
            if r2 != (k + 1, cutf):
                V(viol, 'cutoff+nr', '%s : %s with %s : %d gives %r' % (CUT, cut, NR, k + 1, r2))
                break
    return viol, n


def run_reject(case):
    from atsim.potentials.config._common import ConfigurationException
    viol = []
    grid = case['grid']
    opts = dict(case['opts'])
    tgt = 'LAMMPS' if (grid == 'r' and 'next-to' not in case['name']) else 'setfl'
    try:
        t = parse(opts)
        vals = (t.nr, t.cutoff, t.nrho, t.cutoff_rho)
        # the parser accepted it: the error may legitimately surface when the tabulation is built
        ini = '[Tabulation]\ntarget : %s\n%s\n[Pair]\nA-A : as.polynomial 1 2\n[EAM-Embed]\nA : as.polynomial 1 2\n[EAM-Density]\nA : as.polynomial 1 2\n[Species]\nA.atomic_number : 1\nA.atomic_mass : 1.0\n' % (
            tgt, ''.join('%s : %s\n' % kv for kv in opts.items()))
        tab = R.config_read(ini)
        data = R.write_tabulation(tab)
        V(viol, 'not-rejected:' + case['name'].split('=')[0], '[Tabulation] %r accepted: nr/cutoff/nrho/cutoff_rho = %r, %d bytes written' % (opts, vals, len(data)))
    except ConfigurationException:
        pass
    # the rejection is a property of the file, not of the first look: the same parser object asked again (a caller that probes .tabulation in a
    # try block, an interactive retry) must refuse again - and Configuration.read_from_parser on it must not write a table on default grids
    from atsim.potentials.config import ConfigParser, Configuration
    text = '[Tabulation]\ntarget : %s\n%s\n[Pair]\nA-A : as.polynomial 1 2\n[EAM-Embed]\nA : as.polynomial 1 2\n[EAM-Density]\nA : as.polynomial 1 2\n[Species]\nA.atomic_number : 1\nA.atomic_mass : 1.0\n' % (
        tgt, ''.join('%s : %s\n' % kv for kv in opts.items()))
    cp = ConfigParser(io.StringIO(text))
    outcomes = []
    for attempt in range(3):
        try:
            t = cp.tabulation
            outcomes.append(('accepted', t.nr, t.cutoff, t.nrho, t.cutoff_rho))
        except ConfigurationException:
            outcomes.append('rejected')
    try:
        data = R.write_tabulation(Configuration().read_from_parser(cp))
        outcomes.append(('wrote', len(data)))
    except ConfigurationException:
        outcomes.append('rejected')
    if any(o != 'rejected' for o in outcomes) and not viol:
        V(viol, 'not-rejected-on-second-look:' + case['name'].split('=')[0], '[Tabulation] %r: successive accesses of one ConfigParser give %r' % (opts, outcomes))
    return viol, 1


def run_defaults(case):
    viol = []
    given = {'cutoff': '7.5', 'nr': '11', 'cutoff_rho': '42.0', 'nrho': '7'}
    opts = {k: given[k] for k in case['given']}
    var = ''
    if case.get('variables'):
        names = [k for k in ('cutoff', 'nr', 'dr', 'cutoff_rho', 'nrho', 'drho') if k not in opts]
        var = '[Variables]\n' + ''.join('%s : %s\n' % (k, {'cutoff': '6.5', 'nr': '77', 'dr': '0.002', 'cutoff_rho': '33.0', 'nrho': '55', 'drho': '0.001'}[k]) for k in names) + '\n'
    ini = var + '[Tabulation]\ntarget : %s\n%s\n[Pair]\nA-A : as.polynomial 1 2\n[EAM-Embed]\nA : as.polynomial 1 2\n[EAM-Density]\nA : as.polynomial 1 2\n[Species]\nA.atomic_number : 1\nA.atomic_mass : 1.0\n' % (
        case['target'], ''.join('%s : %s\n' % kv for kv in opts.items()))
    tab = R.config_read(ini)
    want = dict(cutoff=10.0, nr=1001, cutoff_rho=100.0, nrho=1001)
    for k in opts:
        want[k] = float(given[k]) if 'cutoff' in k else int(given[k])
    keys = ('cutoff', 'nr') if case['target'] == 'LAMMPS' else ('cutoff', 'nr', 'cutoff_rho', 'nrho')
    for k in keys:
        if getattr(tab, k) != want[k]:
            V(viol, 'default-%s' % k, 'target %s with %r: %s = %r, documented %r' % (case['target'], opts, k, getattr(tab, k), want[k]))
    return viol, 1


def grid_of(target, data, m):
    """(rows on the r grid, r spacing list, rows on the rho grid or None, rho spacing or None) measured from the written table"""
    if target == 'LAMMPS':
        b = RP.read_lammps_table(data)[0]
        rs = [row[1] for row in b['rows']]
        return len(rs) + 1, [0.0] + rs, None, None, 1e-8
    if target == 'DLPOLY':
        t = RP.read_dlpoly_table(data)
        return t['ngrid'], None, None, None, None, t
    if target == 'GULP':
        b = RP.read_gulp(data)[0]
        rs = [row[1] for row in b['rows']]
        return len(rs), rs, None, None, 1e-10
    if target == 'excel':
        wb = RE.read_xlsx(data)
        rs = [row[0] for row in wb['Pair'][1]]
        return len(rs), rs, None, None, 1e-15
    if target in ('excel_eam', 'excel_eam_fs'):
        wb = RE.read_xlsx(data)
        rs = [row[0] for row in wb['EAM-Density'][1]]
        rhos = [row[0] for row in wb['EAM-Embed'][1]]
        return len(rs), rs, len(rhos), rhos, 1e-15
    if target in ('setfl', 'setfl_fs', 'eam_adp'):
        t = RE.read_setfl(data, {'setfl': 'alloy', 'setfl_fs': 'fs', 'eam_adp': 'adp'}[target])
        return t['nr'], [i * t['dr'] for i in range(t['nr'])], t['nrho'], [i * t['drho'] for i in range(t['nrho'])], 1e-14
    t = RE.read_tabeam(data)
    pr = [b for b in t['blocks'] if b['kind'] == 'pair'][0]
    em = [b for b in t['blocks'] if b['kind'] == 'embe'][0]
    nr, nrho = len(pr['values']), len(em['values'])
    return nr, [i * pr['x1'] / max(1, nr - 1) for i in range(nr)], nrho, [i * em['x1'] / max(1, nrho - 1) for i in range(nrho)], 2e-6


def run_e2e(case):
    viol = []
    tgt, st, n, cut, combo = case['target'], case['step'], case['n'], case['cutoff'], case['combo']
    eam = tgt not in ('LAMMPS', 'DLPOLY', 'GULP', 'excel')

    st2, n2, cut2, combo2 = case.get('rho') or (st, n, cut, combo)

    def opts(NR, DR, CUT, st=st, n=n, cut=cut, combo=combo):
        if combo == 'cutoff+dr':
            return '%s : %s\n%s : %s\n' % (CUT, cut, DR, st)
        if combo == 'nr+dr':
            return '%s : %d\n%s : %s\n' % (NR, n, DR, st)
        return '%s : %s\n%s : %d\n' % (CUT, cut, NR, n)
    tab = '[Tabulation]\ntarget : %s\n%s' % (case.get('spelling', tgt), opts('nr', 'dr', 'cutoff'))
    if eam:
        tab += opts('nrho', 'drho', 'cutoff_rho', st2, n2, cut2, combo2)
    fs = tgt.endswith('_fs')
    ini = tab + '\n[Pair]\nA-A : as.polynomial 1 2 0.5\n'
    if eam:
        ini += '[EAM-Embed]\nA : as.polynomial 1 2 0.25\n[EAM-Density]\n%s : as.polynomial 1 0.5 0.125\n[Species]\nA.atomic_number : 1\nA.atomic_mass : 1.0\n' % ('A->A' if fs else 'A')
    if tgt == 'eam_adp':
        ini += '[EAM-ADP-Dipole]\nA-A : as.polynomial 1 2\n[EAM-ADP-Quadrupole]\nA-A : as.polynomial 1 3\n'
    if case.get('via') == 'potable':
        res = R.potable(ini, binary=tgt.startswith('excel'), prefill=True)
        if res.exc is not None:
            raise res.exc
        if res.status != 0:
            V(viol, 'e2e-potable-failed', 'potable %s %s: exit status %r %s' % (tgt, combo, res.status, res.stderr[-200:]))
            return viol, 1
        data = res.out_bytes
    else:
        tabobj = R.config_read(ini)
        data = R.write_tabulation(tabobj)
        # the tabulation object advertises its grid: nr, cutoff, dr (and nrho, cutoff_rho, drho) describe the grid that is written
        cf = float(cut)
        sf = float(st) if st is not None else cf / (n - 1)
        props = [('nr', tabobj.nr, n, 0), ('cutoff', tabobj.cutoff, (n - 1) * sf if combo == 'nr+dr' else cf, 1e-9), ('dr', tabobj.dr, ((n - 1) * sf if combo == 'nr+dr' else cf) / (n - 1), 1e-9)]
        if eam:
            cf2 = float(cut2)
            sf2 = float(st2) if st2 is not None else cf2 / (n2 - 1)
            props += [('nrho', tabobj.nrho, n2, 0), ('cutoff_rho', tabobj.cutoff_rho, (n2 - 1) * sf2 if combo2 == 'nr+dr' else cf2, 1e-9), ('drho', tabobj.drho, ((n2 - 1) * sf2 if combo2 == 'nr+dr' else cf2) / (n2 - 1), 1e-9)]
        for pname, got, want, rel in props:
            if not abs(got - want) <= rel * abs(want):
                V(viol, 'e2e-property:%s' % pname, '%s %s (%s, %d, %s): tabulation.%s = %r, the grid has %r' % (tgt, combo, st, n, cut, pname, got, want))
    cutf = float(cut)
    stf = float(st) if st is not None else cutf / (n - 1)
    if tgt == 'DLPOLY':
        t = RP.read_dlpoly_table(data)
        if t['ngrid'] != n or len(t['blocks'][0]['energies']) != n:
            V(viol, 'e2e-rows', 'DL_POLY %s (%s, %d, %s): ngrid %d, %d energies' % (combo, st, n, cut, t['ngrid'], len(t['blocks'][0]['energies'])))
        if abs(t['cutpot'] - cutf) > 1e-7 * cutf:
            V(viol, 'e2e-cutoff', 'DL_POLY %s: cutpot %r, expected %r' % (combo, t['cutpot'], cutf))
        return viol, 1
    nr, rs, nrho, rhos, u = grid_of(tgt, data, None)[:5]
    stf2 = float(st2) if st2 is not None else float(cut2) / (n2 - 1)
    for name, cnt, xs, n, stf in (('r', nr, rs, n, stf), ('rho', nrho, rhos, n2, stf2)):
        if cnt is None:
            continue
        if cnt != n:
            V(viol, 'e2e-rows', '%s %s (%s, %d, %s): %d rows on the %s grid, expected %d' % (tgt, combo, st, n, cut, cnt, name, n))
            continue
        for i, x in enumerate(xs):
            if abs(x - i * stf) > (u or 0) + 1e-9 * (i * stf) + 1e-12:
                V(viol, 'e2e-spacing', '%s %s (%s, %d, %s): %s row %d at %r, expected %r' % (tgt, combo, st, n, cut, name, i, x, i * stf))
                break
    return viol, 1


def run_case(case):
    k = case['kind']
    viol, n = dict(lattice=run_lattice, reject=run_reject, defaults=run_defaults, e2e=run_e2e)[k](case)
    return dict(outcome='ok:%s' % k if not viol else 'violation', nontrivial=n if k == 'lattice' else True, evals=n, violations=viol)
