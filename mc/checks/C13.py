"""C13 - species filtering equals deleting the unwanted interactions from the file (E2 histories + potable CLI pass)."""
import io, itertools

from .. import routes as R, hist
from ..initext import Ini, filter_species
from ..readers import eam as RE

PROPERTY = 'C13'
LEVEL = 'model_checking'
RULE = ('histories = every valid sequence up to depth D over the alphabet {V(mode, S): create a filtered view of the shared parsed file (12 filters: '
        'include/exclude x {}, {A}, {A,B}, {A,B,C}, {A,X}, {X}; at most 3 live views), R(j): read pair/eam_embed/eam_density/eam_density_fs of '
        'view j, T(j): tabulate through view j} for 4 files (pair, EAM, Finnis-Sinclair, ADP), each executed on fresh real objects in lock-step '
        'with the reference (text-level deletion of entries, parsed and tabulated unfiltered); plus every file x filter x compatible target '
        'through potable --include-species/--exclude-species; states = distinct reference states (tuple of live views + which were read)')
RULE += '; nested views (a view of a view), caller-owned containers {one list re-used, tuple, one-shot iterator}; the files relabelled with a prefix chain (H, He, Hes), charged labels (Ce3+, Ce4+) and case variants (Co, CO); entries with a modifier in a later range; a species filter combined with one command-line edit (-e / -r / -a); the constructor called positionally; histories with M(j) (the caller empties / truncates the lists view j returned) and P (one [Pair] entry of the wrapped parser replaced through raw_config_parser between reads); a Finnis-Sinclair file with a species that occurs in density entries only'
ASSUMPTIONS = [
    'the hand-edited file is obtained by deleting [Pair], [EAM-Embed] and [EAM-Density] entries only (the statement lists pair, embedding and density entries)',
    'the edited file is parsed and tabulated by the same implementation without filter: a relational oracle, no expected numbers',
    'bounded: <= 3 live views, depth <= 3 (quick) / 4 (thorough), species A, B, C and one unknown label X',
]
BOUNDS = {'quick': 'depth 4: all valid histories over 14 operations (8 filters) x 4 files; CLI pass: 4 files x 12 filters x targets',
          'thorough': 'depth 4 over 18 operations (12 filters) + depth 5 over 12 operations (6 filters)'}

SPECIES = '[Species]\nA.atomic_number : 1\nA.atomic_mass : 1.25\nB.atomic_number : 2\nB.atomic_mass : 4.5\nC.atomic_number : 6\nC.atomic_mass : 12.0\nC.lattice_type : bcc\n'


def files():
    pair = Ini([['Tabulation', [['target', 'LAMMPS'], ['nr', '4'], ['cutoff', '2.0']]],
                ['Pair', [['A-A', 'as.buck 1000.0 0.3 32.0'], ['C-A', 'as.morse 1.8 2.0 0.6'], ['B-B', 'as.lj 0.2 2.5'],
                          ['A-B', '>0 as.zbl 14 8 >=0.8 sum(as.bornmayer 850.0 0.35, as.coul 2.4 -1.2)'], ['B-C', 'as.polynomial 1.0 -2.0 0.5'], ['C-C', 'as.hbnd 120.0 35.0']]]])
    tab = [['nr', '3'], ['cutoff', '2.0'], ['nrho', '3'], ['cutoff_rho', '10.0']]
    sp = [['A.atomic_number', '1'], ['A.atomic_mass', '1.25'], ['B.atomic_number', '2'], ['B.atomic_mass', '4.5'],
          ['C.atomic_number', '6'], ['C.atomic_mass', '12.0'], ['C.lattice_type', 'bcc']]
    eam = Ini([['Tabulation', [['target', 'setfl']] + tab], ['Species', sp],
               ['EAM-Embed', [['B', '>=0 as.polynomial 0.2 -1.3 0.02'], ['A', '>=0 as.polynomial 0.1 -1.0 0.01'], ['C', '>=0 as.polynomial 0.3 -1.6 0.03']]],
               ['EAM-Density', [['C', '>=0 as.exp_spline 1.1 -1.1 0.03 0 0 0 0.1 >=1.5 product(as.constant 0.5, as.exp_spline 1.1 -1.1 0.03 0 0 0 0.1)'], ['A', '>=0 as.exp_spline 0.7 -0.9 0.01 0 0 0 0'], ['B', 'as.exp_spline 0.9 -1.0 0.02 0 0 0 0.05']]],
               ['Pair', [['A-A', '>=0 as.morse 1.2 2.0 0.3'], ['B-A', '>=0 as.morse 1.3 2.05 0.35 >=1.0 sum(as.morse 1.3 2.05 0.35, as.constant 0.5)'], ['C-C', '>=0 as.morse 1.4 2.1 0.4'], ['A-C', '>=0 as.morse 1.5 2.15 0.45']]]])
    fs = Ini([['Tabulation', [['target', 'setfl_fs']] + tab], ['Species', sp],
              ['EAM-Embed', [['A', '>=0 as.polynomial 0.1 -1.0 0.01'], ['B', '>=0 as.polynomial 0.2 -1.3 0.02'], ['C', '>=0 as.polynomial 0.3 -1.6 0.03']]],
              ['EAM-Density', [['A->A', '>=0 as.exp_spline 0.1 -1.1 0.02 0 0 0 0'], ['A->B', '>=0 as.exp_spline 0.2 -1.1 0.02 0 0 0 0'],
                               ['B->A', '>=0 as.exp_spline 0.3 -1.1 0.02 0 0 0 0'], ['C->B', '>=0 as.exp_spline 0.4 -1.1 0.02 0 0 0 0'],
                               ['B->B', '>=0 as.exp_spline 0.5 -1.1 0.02 0 0 0 0'], ['C->C', '>=0 as.exp_spline 0.6 -1.1 0.02 0 0 0 0']]],
              ['Pair', [['B-B', '>=0 as.morse 1.2 2.0 0.3'], ['A-B', '>=0 as.morse 1.3 2.05 0.35'], ['C-A', '>=0 as.morse 1.4 2.1 0.4']]]])
    adp = eam.copy()
    adp.section('Tabulation')[1][0][1] = 'eam_adp'
    adp.sections.append(['EAM-ADP-Dipole', [['A-A', '>=0 as.polynomial 0.5 -0.2 0.01'], ['A-B', '>=0 as.polynomial 0.6 -0.2 0.01']]])
    adp.sections.append(['EAM-ADP-Quadrupole', [['B-B', '>=0 as.morse 0.75 1.3 0.2'], ['C-A', '>=0 as.morse 0.85 1.3 0.21']]])
    out = {'pair': pair, 'eam': eam, 'fs': fs, 'adp': adp}
    # a Finnis-Sinclair file in which species C occurs in [EAM-Density] entries only (no embedding function, no pair potential)
    donly = fs.copy()
    donly.section('EAM-Embed')[1][:] = [kv for kv in donly.section('EAM-Embed')[1] if kv[0] != 'C']
    donly.section('Pair')[1][:] = [kv for kv in donly.section('Pair')[1] if 'C' not in kv[0].split('-')]
    out['fs_donly'] = donly
    # the same files with labels one of which is a prefix of the next (H, He, Hes; unknown Hx) and with charged labels (Ce3+, Ce4+; unknown Ce)
    for tag, mp in LABEL_MAPS.items():
        for base in ('pair', 'eam', 'fs'):
            out['%s_%s' % (base, tag)] = relabel(out[base], mp)
    return out


LABEL_MAPS = {'prefix': {'A': 'H', 'B': 'He', 'C': 'Hes', 'X': 'Hx'}, 'charged': {'A': 'Ce3+', 'B': 'Ce4+', 'C': 'O', 'X': 'Ce'},
              'case': {'A': 'Co', 'B': 'CO', 'C': 'O', 'X': 'co'}}      # labels that differ only in letter case are different species


def relabel(ini, mp):
    out = ini.copy()
    for sec in out.sections:
        for kv in sec[1]:
            k = kv[0]
            if sec[0] in ('Pair', 'EAM-ADP-Dipole', 'EAM-ADP-Quadrupole'):
                kv[0] = '-'.join(mp[x] for x in k.split('-'))
            elif sec[0] == 'EAM-Embed':
                kv[0] = mp[k]
            elif sec[0] == 'EAM-Density':
                kv[0] = '->'.join(mp[x] for x in k.split('->'))
            elif sec[0] == 'Species':
                a, b = k.split('.', 1)
                kv[0] = '%s.%s' % (mp[a], b)
    return out


def base_of(fname):
    return fname.split('_')[0]


def species_of(fname, S):
    mp = LABEL_MAPS.get(fname.split('_')[1], {}) if '_' in fname else {}
    return [mp.get(x, x) for x in S]


FILTERS = [(mode, s) for mode in ('include', 'exclude') for s in ([], ['A'], ['A', 'B'], ['A', 'B', 'C'], ['A', 'X'], ['X'])]
ATTRS = {'pair': ['pair'], 'eam': ['pair', 'eam_embed', 'eam_density'], 'fs': ['pair', 'eam_embed', 'eam_density_fs'], 'adp': ['pair', 'eam_embed', 'eam_density']}
TARGETS = {'pair': ['LAMMPS', 'GULP', 'DLPOLY', 'excel'], 'eam': ['setfl', 'DL_POLY_EAM', 'excel_eam'], 'fs': ['setfl_fs', 'DL_POLY_EAM_fs', 'excel_eam_fs'], 'adp': ['eam_adp']}


def valid(prefix):
    nv = 0
    for op in prefix:
        if op[0] == 'V':
            nv += 1
            if nv > 3:
                return False
        elif op[0] == 'N':
            if op[1] >= nv or nv >= 3:
                return False
            nv += 1
        elif op[0] == 'P':
            pass
        elif op[1] >= nv:
            return False
    return prefix[0][0] == 'V'


def cases(tier):
    out = []
    # quick: 8 filters (include/exclude x {}, {A}, {A,B}, {X}) to depth 4; thorough: all 12 filters to depth 4 and 6 filters to depth 5
    def alpha(fidx):
        return [['V', i] for i in fidx] + [['R', j] for j in range(3)] + [['T', j] for j in range(3)]
    q8 = [i for i, (m, sp) in enumerate(FILTERS) if sp in ([], ['A'], ['A', 'B'], ['X'])]
    if tier == 'quick':
        hs = hist.histories(alpha(q8), 4, valid)
    else:
        hs = hist.histories(alpha(range(len(FILTERS))), 4, valid)
        q6 = [i for i, (m, sp) in enumerate(FILTERS) if sp in ([], ['A', 'B'], ['X'])]
        seen = set(map(repr, hs))
        hs += [h for h in hist.histories(alpha(q6), 5, valid) if len(h) == 5]
    # nested views (a filtered view of a filtered view): every history to depth 3 (thorough 4) over 6 filters
    n6 = [i for i, (m, sp) in enumerate(FILTERS) if sp in (['A'], ['A', 'B'], ['X'])]
    nalpha = [['V', i] for i in n6] + [['N', j, i] for j in range(2) for i in n6] + [['R', j] for j in range(3)] + [['T', j] for j in range(3)]
    nested = [h for h in hist.histories(nalpha, 3 if tier == 'quick' else 4, valid) if any(op[0] == 'N' for op in h)]
    for fname in ('pair', 'eam', 'fs', 'adp'):
        for h in hs + nested:
            if not any(op[0] in 'RT' for op in h):
                continue                      # nothing observed
            out.append(dict(kind='history', file=fname, ops=h, container='fresh'))
            nv = sum(1 for op in h if op[0] in 'VN')
            if nv >= 2 and len(h) <= 4 and h[-1][0] in 'RT' and h[-1][1] < nv - 1 and not any(op[0] == 'N' for op in h):
                # the caller re-uses ONE list object for the species of successive views (or passes a tuple / a one-shot iterator)
                out.append(dict(kind='history', file=fname, ops=h, container='shared'))
            if nv == 1 and len(h) <= 3:
                out.append(dict(kind='history', file=fname, ops=h, container='both-kwargs'))
                out.append(dict(kind='history', file=fname, ops=h, container='tuple'))
                out.append(dict(kind='history', file=fname, ops=h, container='iterator'))
                out.append(dict(kind='history', file=fname, ops=h, container='positional'))
    # the caller's side of the interface: M(j) = the caller empties / re-orders the lists view j handed out earlier; P = the wrapped parser is edited
    # (one [Pair] entry replaced through raw_config_parser, as a parameter scan does) - later reads and tabulations follow the file as it is now
    m3 = [i for i, (m, sp) in enumerate(FILTERS) if (m, sp) in (('include', ['A', 'B']), ('exclude', ['A']), ('exclude', ['X']))]
    malpha = [['V', i] for i in m3] + [['R', j] for j in range(2)] + [['T', j] for j in range(2)] + [['M', j] for j in range(2)] + [['P']]
    mh = [h for h in hist.histories(malpha, 4 if tier == 'quick' else 5, valid)
          if any(op[0] in 'MP' for op in h) and h[-1][0] in 'RT' and sum(1 for op in h if op[0] == 'V') <= 2 and sum(1 for op in h if op[0] == 'P') <= 1
          and all(op[0] != 'M' or any(q[0] == 'R' and q[1] == op[1] for q in h[:i]) for i, op in enumerate(h))]
    for fname in ('pair', 'eam', 'fs', 'adp'):
        for h in mh:
            out.append(dict(kind='history', file=fname, ops=h, container='fresh'))
    short = [h for h in hs if len(h) <= 3 and any(op[0] in 'RT' for op in h)]
    extra = ['%s_%s' % (b, t) for t in LABEL_MAPS for b in ('pair', 'eam', 'fs')]
    for fname in extra:
        for h in short:
            out.append(dict(kind='history', file=fname, ops=h, container='fresh'))
    for h in short:
        out.append(dict(kind='history', file='fs_donly', ops=h, container='fresh'))
    for fname in ['pair', 'eam', 'fs', 'adp', 'fs_donly'] + extra:
        for fi in range(len(FILTERS)):
            for tgt in TARGETS[base_of(fname)]:
                out.append(dict(kind='cli', file=fname, filter=fi, target=tgt))
    # a species filter together with one edit of the file (--override-item / --remove-item / --add-item): the edit is made first
    for fname in ('pair', 'eam', 'fs'):
        first = get_file(fname).section('Pair')[1]
        edits = [['O', 'Pair', first[0][0], '>=0 as.polynomial 7.5 -0.25'], ['X', 'Pair', first[1][0]], ['A', 'Pair', 'X-A', '>=0 as.polynomial 6.5 0.5'],
                 ['A', 'Pair', 'C-B' if fname != 'pair' else 'X-X', '>=0 as.polynomial 5.5 0.25']]
        if fname != 'pair':
            dk = get_file(fname).section('EAM-Density')[1][0][0]
            edits += [['O', 'EAM-Density', dk, '>=0 as.polynomial 0.5 0.125'], ['X', 'EAM-Density', dk]]
        for fi in range(len(FILTERS)):
            for e in edits:
                out.append(dict(kind='cli', file=fname, filter=fi, target=TARGETS[fname][fi % len(TARGETS[fname])], edit=e))
    return out


_files = None
_refcache = {}


def get_file(name):
    global _files
    if _files is None:
        _files = files()
    return _files[name]


def tabulate(cp):
    from atsim.potentials.config import Configuration
    from atsim.potentials.config._common import ConfigurationException
    try:
        tab = Configuration().read_from_parser(cp)
        return ('bytes', R.write_tabulation(tab))
    except ConfigurationException as e:
        return ('config-error', type(e).__name__)


P_VALUE = '>=0 as.polynomial 7.5 -0.25 0.125'


def reference(fname, fi, scanned=False):
    """fi: a filter index or a tuple of filter indices applied one after the other (nested views); scanned: the first [Pair] entry was replaced"""
    chain = fi if isinstance(fi, tuple) else (fi,)
    key = (fname, chain, scanned)
    if key not in _refcache:
        from atsim.potentials.config import ConfigParser
        edited = get_file(fname)
        if scanned:
            edited = edited.copy()
            edited.section('Pair')[1][0][1] = P_VALUE
        for f_ in chain:
            mode, S = FILTERS[f_]
            edited = filter_species(edited, species_of(fname, S), mode == 'exclude')
        cp = ConfigParser(io.StringIO(edited.render()))
        lists = {a: getattr(cp, a) for a in ATTRS[base_of(fname)]}
        _refcache[key] = (lists, tabulate(cp), edited)
    return _refcache[key]


def run_history(case):
    from atsim.potentials.config import ConfigParser, FilteredConfigParser
    fname = case['file']
    base = ConfigParser(io.StringIO(get_file(fname).render()))
    views, vf = [], []
    viol = []
    states = []
    read = []
    trans = 0
    shared = []
    handed = {}
    scanned = False
    kind = case.get('container', 'fresh')
    for step, op in enumerate(case['ops']):
        trans += 1
        if op[0] == 'P':
            base.raw_config_parser.set('Pair', get_file(fname).section('Pair')[1][0][0], P_VALUE)
            scanned = True
        elif op[0] == 'M':
            for k, lst in enumerate(handed.get(op[1], [])):
                if isinstance(lst, list):
                    if k % 2:
                        lst.reverse()
                        del lst[1:]
                    else:
                        del lst[:]
        elif op[0] in 'VN':
            mode, S = FILTERS[op[-1]]
            S = species_of(fname, S)
            if kind == 'shared':
                shared[:] = list(S)
                cont = shared
            elif kind == 'tuple':
                cont = tuple(S)
            elif kind == 'iterator':
                cont = iter(list(S))
            else:
                cont = list(S)
            parent = base if op[0] == 'V' else views[op[1]]
            if kind == 'positional':
                # the documented signature FilteredConfigParser(config_parser, exclude=None, include=None) used without keywords
                views.append(FilteredConfigParser(parent, cont) if mode == 'exclude' else FilteredConfigParser(parent, None, cont))
            elif kind == 'both-kwargs' and S:
                # both keyword arguments given, the unused one as an empty list (wrappers that pass `x or []`; the class's historical signature)
                views.append(FilteredConfigParser(parent, **{mode: cont, ('exclude' if mode == 'include' else 'include'): []}))
            else:
                views.append(FilteredConfigParser(parent, **{mode: cont}))
            vf.append((op[1],) if op[0] == 'V' else vf[op[1]] + (op[2],))
            read.append(0)
        else:
            j = op[1]
            lists, tabref, _e = reference(fname, vf[j], scanned)
            mode, S = 'chain', [FILTERS[x] for x in vf[j]]
            read[j] = 1
            if op[0] == 'R':
                for a in ATTRS[base_of(fname)]:
                    got = getattr(views[j], a)
                    handed.setdefault(j, []).append(got)
                    if got != lists[a]:
                        others = [FILTERS[x] for i, x in enumerate(vf) if i != j]
                        sig = 'view-differs-from-edited-file' if step == 1 or len(vf) == 1 else 'views-interfere'
                        viol.append(dict(sig='%s:%s' % (sig, a), msg='file %s, history %s: %s of the view %s=%r lists %r; the file with those entries deleted lists %r (other views: %r)'
                                         % (fname, describe(case['ops']), a, mode, S, [t.species for t in got], [t.species for t in lists[a]], others), detail={}))
                        break
            else:
                got = tabulate(views[j])
                if got != tabref:
                    sig = 'tabulation-differs-from-edited-file' if len(vf) == 1 else 'tabulation-views-interfere'
                    viol.append(dict(sig=sig, msg='file %s, history %s: tabulating through view %s=%r gives %s, the hand-edited file gives %s'
                                     % (fname, describe(case['ops']), mode, S, brief(got), brief(tabref)), detail={}))
        states.append('%s|%s|%s|%s%s' % (fname, ','.join('.'.join(map(str, c)) for c in vf), ''.join(map(str, read)), kind, '|scanned' if scanned else ''))
        if viol:
            break
    return dict(outcome='ok:history:%d' % len(case['ops']) if not viol else 'violation', nontrivial=len(vf) >= 2, evals=trans,
                violations=viol, states=sorted(set(states)), transitions=trans, traces=1)


def brief(o):
    kind, data = o
    if kind != 'bytes':
        return '%s %s' % (kind, data)
    return '%d bytes (%r...)' % (len(data), data[:60])


def describe(ops):
    out = []
    for op in ops:
        if op[0] == 'V':
            out.append('V(%s=%r)' % FILTERS[op[1]])
        elif op[0] == 'N':
            out.append('N(view %d, %s=%r)' % ((op[1],) + FILTERS[op[2]]))
        elif op[0] == 'P':
            out.append('P(replace first [Pair] entry in the wrapped parser)')
        elif op[0] == 'M':
            out.append('M(caller empties the lists view %d returned)' % op[1])
        else:
            out.append('%s(view %d)' % (op[0], op[1]))
    return ' '.join(out)


def run_cli(case):
    fname, fi, tgt = case['file'], case['filter'], case['target']
    mode, S = FILTERS[fi]
    S = species_of(fname, S)
    ini = get_file(fname).copy()
    ini.section('Tabulation')[1][0][1] = tgt
    if tgt == 'DLPOLY':
        ini.section('Tabulation')[1][1][1] = '8'
    binary = tgt.startswith('excel')
    args = ['--%s-species' % mode] + list(S)
    e = case.get('edit')
    base = ini
    if e:
        from ..initext import override, remove, add
        base = ini.copy()
        {'O': lambda: override(base, e[1], e[2], e[3]), 'X': lambda: remove(base, e[1], e[2]), 'A': lambda: add(base, e[1], e[2], e[3])}[e[0]]()
        args += [{'O': '-e', 'X': '-r', 'A': '-a'}[e[0]], '%s:%s%s' % (e[1], e[2], '=' + e[3] if e[0] != 'X' else '')]
    edited = filter_species(base, S, mode == 'exclude')
    got = R.potable(ini.render(), args=args, binary=binary)
    want = R.potable(edited.render(), binary=binary)
    viol = []

    def obs(r):
        if r.exc is not None:
            return ('exception', type(r.exc).__name__)
        if r.status != 0:
            return ('exit', r.status, 'configuration error' in r.stderr)
        if binary:
            try:
                return ('workbook', RE.read_xlsx(r.out_bytes))
            except Exception as e:  # noqa
                return ('bad-xlsx', str(e))
        return ('bytes', r.out_bytes)
    a, b = obs(got), obs(want)
    if a != b:
        viol.append(dict(sig='cli-differs-from-edited-file', msg='potable %s on file %s (target %s) gives %s; the hand-edited file gives %s'
                         % (' '.join(args), fname, tgt, str(a)[:200], str(b)[:200]), detail={}))
    return dict(outcome='ok:cli:%s' % b[0] if not viol else 'violation', nontrivial=True, evals=1, violations=viol, states=['cli|%s|%d' % (fname, fi)], transitions=1, traces=1)


def run_case(case):
    return run_history(case) if case['kind'] == 'history' else run_cli(case)
