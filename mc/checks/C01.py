"""C01 - LAMMPS pair table: rows, header and force column are faithful to the model.

Enumerates pair models (lists of 1..3 potentials over the label alphabet, each potential from the
library or a Python-only callable) x grids x access routes, parses the bytes with an independent
reader of the pair_style table syntax and compares with the reference model.
"""
import io, itertools, math

from .. import models as M, routes as R
from ..refmodel import expr as X
from ..readers import pair as RD

PROPERTY = 'C01'
LEVEL = 'exploration'
RULE = ('cases = (list of 1..3 potentials: species pair x library potential) x (cutoff, nr) grid x route '
        '{class write, writePotentials, Configuration.read, potable main}; every case executed; non-trivial = '
        'model with >= 2 blocks or a potential with non-zero curvature on the grid and >= 2 rows')
ASSUMPTIONS = [
    'reference closed forms (mc/refmodel/forms.py) are the documented formulas; constants of coul/zbl/tang_toennies as listed in DESIGN 2.3',
    'LAMMPS pair_style table syntax as encoded in mc/readers/pair.py (keyword, "N n R lo hi", blank, N rows "i r e f")',
    'decided on finite lattices of grids/potentials/labels, not on all reals',
    'printed-precision rule: |printed - ref| <= 1 unit of last printed place + 1e-9*|ref| (+ numerical-derivative error model where the documented behaviour is a finite difference)',
]
BOUNDS = {'quick': 'potentials/model <= 3, nr in {3,4,5,8,12,101}, 4 cutoffs, 4 routes',
          'thorough': 'potentials/model <= 3, nr in 3..24 + {100,101,1001,2001}, 8 cutoffs, 4 routes'}

LABELS_INI = [('A', 'B'), ('Si', 'O'), ('O', 'O'), ('U4+', 'Mg_c'), ('B', 'A'), ('C', 'D')]
LABELS_API = LABELS_INI + [('core-O', 'O2-')]
ROUTES = ['cls', 'wp', 'cfg', 'potable']


def grids(tier):
    if tier == 'quick':
        g = [(1.0, 3), (2.5, 4), (6.5, 5), (1.0, 8), (6.5, 12), (0.2, 3), (10.0, 101), (2.5, 12)]
    else:
        g = [(c, n) for c in (0.7, 1.0, 2.5, 6.5, 10.0, 12.3) for n in list(range(3, 25))]
        g += [(10.0, 100), (10.0, 101), (10.0, 1001), (8.0, 1001), (5.0, 101), (6.5, 1000), (0.2, 3), (10.0, 2001)]
    return g


def cases(tier):
    lib = M.lib()
    names = [n for n, _d, _t in lib]
    pyn = sorted(M.py_callables())
    out = []
    G = grids(tier)
    # (1) every library potential alone, every grid, every route, rotating labels
    k = 0
    for gi, (cutoff, nr) in enumerate(G):
        for ni, n in enumerate(names + pyn):
            for route in ROUTES:
                if n in pyn and route in ('cfg', 'potable'):
                    continue
                labs = LABELS_API if route in ('cls', 'wp') else LABELS_INI
                a, b = labs[(ni + gi) % len(labs)]
                out.append(dict(route=route, cutoff=cutoff, nr=nr, pots=[[a, b, n]]))
                k += 1
    # (2) every ordered list of 2 potentials over a small sub-library, all label pairs incl. reversed/repeated species
    sub = ['buck', 'tworange', 'custom', 'table', 'spline_exp', 'py_plain'] if tier == 'quick' else names + pyn
    G2 = G[:3] if tier == 'quick' else G[:6] + G[-8:]
    labsets = [[('A', 'B'), ('B', 'A')], [('O', 'O'), ('Si', 'O')], [('A', 'A'), ('B', 'B')], [('U4+', 'Mg_c'), ('Mg_c', 'Mg_c')]]
    for (cutoff, nr) in G2:
        for i, (n1, n2) in enumerate(itertools.permutations(sub, 2)):
            for route in ROUTES:
                if (n1 in pyn or n2 in pyn) and route in ('cfg', 'potable'):
                    continue
                ls = labsets[i % len(labsets)]
                if route in ('cfg', 'potable') and ls[0] == ('A', 'B') and ls[1] == ('B', 'A'):
                    ls = [('A', 'B'), ('B', 'C')]   # A-B with B-A is a duplicate pair for the file format (C20)
                out.append(dict(route=route, cutoff=cutoff, nr=nr, pots=[[ls[0][0], ls[0][1], n1], [ls[1][0], ls[1][1], n2]]))
    # (3) lists of 3: all orders of a triple, per route
    triples = [('buck', 'morse', 'custom'), ('threerange', 'table', 'nested')] if tier == 'quick' else \
        [('buck', 'morse', 'custom'), ('threerange', 'table', 'nested'), ('zbl', 'buck4', 'trans'), ('lj', 'pow', 'spline_buck4')]
    lab3 = [('A', 'A'), ('A', 'B'), ('B', 'B')]
    for (cutoff, nr) in G2[:2] if tier == 'quick' else G2:
        for tr in triples:
            for perm in itertools.permutations(range(3)):
                for route in ROUTES:
                    out.append(dict(route=route, cutoff=cutoff, nr=nr,
                                    pots=[[lab3[j][0], lab3[j][1], tr[p]] for j, p in enumerate(perm)]))
    return out


def _build_api_pots(pots):
    import atsim.potentials as ap
    pyc = M.py_callables()
    objs = []
    for a, b, n in pots:
        if n in pyc:
            f = pyc[n][0]()
        else:
            d, _t = M.lib_by_name(n)
            f = R.api_defn(d)
        objs.append(ap.Potential(a, b, f))
    return objs


def _api_able(n):
    if n in M.py_callables():
        return True
    _d, t = M.lib_by_name(n)
    return 'api' in t


def produce(case):
    """run the route; returns text"""
    import atsim.potentials as ap
    route, cutoff, nr, pots = case['route'], case['cutoff'], case['nr'], case['pots']
    if route in ('cls', 'wp'):
        objs = _build_api_pots(pots)
        fp = io.StringIO()
        if route == 'cls':
            from atsim.potentials.pair_tabulation import LAMMPS_PairTabulation
            LAMMPS_PairTabulation(objs, cutoff, nr).write(fp)
        else:
            ap.writePotentials('LAMMPS', objs, cutoff, nr, fp)
        return fp.getvalue()
    ini = M.pair_ini('LAMMPS' if (nr + len(pots)) % 2 else None, [(a, b, M.lib_by_name(n)[0]) for a, b, n in pots], cutoff, nr)
    if route == 'cfg':
        return R.write_tabulation(R.config_read(ini))
    res = R.potable(ini)
    if res.exc is not None:
        raise res.exc
    if res.status != 0:
        raise RuntimeError('potable exit status %r: %s' % (res.status, res.stderr[-300:]))
    return res.out_bytes


def ref_jet(name, route):
    """-> function r -> Jet, numeric(bool), defn or None"""
    pyc = M.py_callables()
    if name in pyc:
        return pyc[name][1], pyc[name][2], None
    d, t = M.lib_by_name(name)
    e = M.env()
    if route in ('cls', 'wp'):
        d2 = R.apiize(d)
    else:
        d2 = d
    return (lambda r: X.ev_defn(d2, r, e)), ('numeric' in t), d2


def check_blocks(case, blocks, kind='lammps'):
    viol = []
    cutoff, nr, pots, route = case['cutoff'], case['nr'], case['pots'], case['route']

    def V(sig, msg):
        viol.append(dict(sig=sig, msg=msg, detail={}))
    if len(blocks) != len(pots):
        V('block-count', 'expected %d blocks (one per potential), found %d' % (len(pots), len(blocks)))
        return viol
    N = nr - 1
    dr = cutoff / (nr - 1)
    for bi, ((a, b, name), blk) in enumerate(zip(pots, blocks)):
        if blk['keyword'] not in ('%s-%s' % (a, b), '%s-%s' % (b, a)):
            V('keyword', 'block %d keyed %r, expected the labels %s and %s' % (bi, blk['keyword'], a, b))
        if blk['N'] != N:
            V('header-N', 'block %s: header N=%d, expected nr-1=%d' % (blk['keyword'], blk['N'], N))
        if len(blk['rows']) != N:
            V('row-count', 'block %s: %d rows, expected %d' % (blk['keyword'], len(blk['rows']), N))
            continue
        if abs(blk['lo'] - dr) > blk['ulo'] + 1e-9 * dr:
            V('header-lo', 'block %s: header lo=%r, expected dr=%r' % (blk['keyword'], blk['lo'], dr))
        if abs(blk['hi'] - cutoff) > blk['uhi'] + 1e-9 * cutoff:
            V('header-hi', 'block %s: header hi=%r, expected cutoff=%r' % (blk['keyword'], blk['hi'], cutoff))
        fn, numeric, d2 = ref_jet(name, route)
        for i, (idx, r, E, Fo, (ur, uE, uF)) in enumerate(blk['rows']):
            if idx != i + 1:
                V('row-index', 'block %s: row %d numbered %d' % (blk['keyword'], i + 1, idx))
                break
            rr = (i + 1) * dr
            if abs(r - rr) > ur + 1e-9 * rr:
                V('row-r', 'block %s row %d: r=%r, expected %r' % (blk['keyword'], i + 1, r, rr))
                break
            j = fn(rr)
            if abs(E - j.v) > uE + 1e-9 * abs(j.v):
                V('energy', 'block %s (%s) row %d r=%r: energy %r, reference %r' % (blk['keyword'], name, i + 1, rr, E, j.v))
                break
            allow = uF + 1e-9 * abs(j.d1)
            if numeric:
                if d2 is not None:
                    Ms = max(M.err_scale(d2, rr + s, M.env()) for s in (-M.H / 2, M.H / 2))
                else:
                    Ms = max(abs(fn(rr + s).v) for s in (-M.H / 2, M.H / 2))
                allow += M.num_allow(Ms, M.third_deriv(fn, rr))
            if abs(Fo - (-j.d1)) > allow:
                V('force', 'block %s (%s) row %d r=%r: force %r, reference -dE/dr=%r (allowance %.3g)' % (blk['keyword'], name, i + 1, rr, Fo, -j.d1, allow))
                break
    return viol


def run_case(case):
    if case['route'] in ('cls', 'wp') and not all(_api_able(n) for _a, _b, n in case['pots']):
        # no Python-API composition exists for this potential (trans, spline modifier text, custom formula, table form):
        # build the callable through the config machinery and feed it to the API route
        return run_hybrid(case)
    text = produce(case)
    try:
        blocks = RD.read_lammps_table(text)
    except RD.FormatError as e:
        return dict(outcome='format-error', nontrivial=True,
                    violations=[dict(sig='format:' + str(e).split(':')[0][:40], msg='unreadable pair_style table: %s' % e, detail={'text': text[:1500]})])
    viol = check_blocks(case, blocks)
    return dict(outcome='ok' if not viol else 'violation', nontrivial=(len(case['pots']) >= 2 or case['nr'] >= 3),
                evals=sum(len(b['rows']) for b in blocks), violations=viol)


def run_hybrid(case):
    """API routes for potentials that only exist in the potable language: callables are obtained from a
    Configuration built from the ini text and re-wrapped in fresh Potential objects with the case's labels."""
    import atsim.potentials as ap
    pots = case['pots']
    pyc = M.py_callables()
    objs = []
    for a, b, n in pots:
        if n in pyc:
            objs.append(ap.Potential(a, b, pyc[n][0]()))
        else:
            ini = M.pair_ini('LAMMPS', [('X', 'Y', M.lib_by_name(n)[0])], 5.0, 6)
            tab = R.config_read(ini)
            objs.append(ap.Potential(a, b, tab.potentials[0].potentialFunction))
    fp = io.StringIO()
    if case['route'] == 'cls':
        from atsim.potentials.pair_tabulation import LAMMPS_PairTabulation
        LAMMPS_PairTabulation(objs, case['cutoff'], case['nr']).write(fp)
    else:
        ap.writePotentials('LAMMPS', objs, case['cutoff'], case['nr'], fp)
    text = fp.getvalue()
    try:
        blocks = RD.read_lammps_table(text)
    except RD.FormatError as e:
        return dict(outcome='format-error', nontrivial=True,
                    violations=[dict(sig='format:' + str(e).split(':')[0][:40], msg='unreadable pair_style table: %s' % e, detail={'text': text[:1500]})])
    c2 = dict(case)
    c2['route'] = 'cfg'   # reference semantics of a potable-built callable (default range > 0)
    c2['pots'] = pots
    viol = check_blocks_hybrid(case, c2, blocks)
    return dict(outcome='ok-hybrid' if not viol else 'violation', nontrivial=True,
                evals=sum(len(b['rows']) for b in blocks), violations=viol)


def check_blocks_hybrid(case, c2, blocks):
    # python-only callables keep API semantics, library ones potable semantics: ref_jet handles per name
    pyc = M.py_callables()
    orig = ref_jet

    def rj(name, route):
        return orig(name, 'cls' if name in pyc else 'cfg')
    globals()['ref_jet'] = rj
    try:
        return check_blocks(c2, blocks)
    finally:
        globals()['ref_jet'] = orig
