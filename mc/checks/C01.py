"""C01 - LAMMPS pair table: rows, header and force column are faithful to the model.

Enumerates pair models (lists of 1..3 potentials over the label alphabet, each potential from the
library or a Python-only callable) x grids x access routes, parses the bytes with an independent
reader of the pair_style table syntax and compares every row with the reference model.
"""
from .. import models as M, pairkit as PK
from ..readers import pair as RD

PROPERTY = 'C01'
LEVEL = 'exploration'
RULE = ('cases = (list of 1..3 potentials: species pair x library potential) x (cutoff, nr) grid x route '
        '{class write, writePotentials, Configuration.read, potable main} + a (cutoff, nr) lattice sweep with one curved '
        'potential; every case executed; evaluations = table rows compared; non-trivial = every case (all library '
        'potentials are curved and pairwise distinct on every grid, every table has >= 2 rows)')
RULE += '; library (45 entries): custom formulas (nested calls with other arguments, several statements, call spellings, comments on continuation lines, assignments to parameters, block syntax, tiny magnitudes), splines with a first-part bound / a shifted end, 12 ranges, hash-colliding parameter lists; Python callables (no / first / second derivative, int-returning, numpy 0-d returning, abs()-based) and potential OBJECTS (Potential subclass overriding energy(), duck-typed object); labels up to 8 characters; non-decimal cutoffs, tables of 10^4 rows and 15 pairs; potable writes into a pre-filled OUTPUT_FILE or through a symbolic link; a failed tabulation as predecessor'
ASSUMPTIONS = [
    'reference closed forms (mc/refmodel/forms.py) are the documented formulas; constants of coul/zbl/tang_toennies as listed in DESIGN 2.3',
    'LAMMPS pair_style table syntax as encoded in mc/readers/pair.py (keyword, "N n R lo hi", blank, N rows "i r e f")',
    'decided on finite lattices of grids/potentials/labels, not on all reals',
    'printed-precision rule: |printed - ref| <= 1 unit of last printed place + 1e-9*|ref| (+ numerical-derivative error model where the documented behaviour is a finite difference)',
    'block keyword: either order of the two labels is accepted (API docstring says sorted, code writes as given; the statement says "keyed by its two species labels")',
]
BOUNDS = {'quick': 'potentials/model <= 3; 8 model grids; lattice sweep 7 cutoffs x 8 row counts; 4 routes',
          'thorough': 'potentials/model <= 3; 140 model grids; lattice sweep 150 cutoffs x 32 row counts (3..2001); 4 routes'}


def cases(tier):
    return PK.pair_cases(tier)


def check_blocks(case, blocks):
    viol = []
    cutoff, nr, pots, route = case['cutoff'], case['nr'], case['pots'], case['route']

    def V(sig, msg):
        viol.append(dict(sig=sig, msg=msg, detail={}))
    if len(blocks) != len(pots):
        V('block-count', 'expected %d blocks (one per potential), found %d' % (len(pots), len(blocks)))
        return viol
    N = nr - 1
    dr = cutoff / (nr - 1)
    for bi, ((a, b, name), blk) in enumerate(zip(pots, blocks)):
        kw = blk['keyword']
        if kw not in ('%s-%s' % (a, b), '%s-%s' % (b, a)):
            V('keyword', 'block %d keyed %r, expected the labels %s and %s' % (bi, kw, a, b))
        if blk['N'] != N:
            V('header-N', 'block %s: header N=%d, expected nr-1=%d' % (kw, blk['N'], N))
        if len(blk['rows']) != N:
            V('row-count', 'block %s: %d rows, expected %d' % (kw, len(blk['rows']), N))
            continue
        if abs(blk['lo'] - dr) > blk['ulo'] + 1e-9 * dr:
            V('header-lo', 'block %s: header lo=%r, expected dr=%r' % (kw, blk['lo'], dr))
        if abs(blk['hi'] - cutoff) > blk['uhi'] + 1e-9 * cutoff:
            V('header-hi', 'block %s: header hi=%r, expected cutoff=%r' % (kw, blk['hi'], cutoff))
        fn, numeric, _d2 = PK.ref(name, route)
        for i, (idx, r, E, Fo, (ur, uE, uF)) in enumerate(blk['rows']):
            if idx != i + 1:
                V('row-index', 'block %s: row %d numbered %d' % (kw, i + 1, idx))
                break
            rr = (i + 1) * dr
            if abs(r - rr) > ur + 1e-9 * rr:
                V('row-r', 'block %s row %d: r=%r, expected %r' % (kw, i + 1, r, rr))
                break
            if PK.ill_conditioned(name, route, rr):
                continue
            j = fn(rr)
            dr_slack = 8 * M.EPS * rr            # legitimate ways of computing the grid differ by a few ulp in r
            if abs(E - j.v) > uE + 1e-9 * abs(j.v) + abs(j.d1) * dr_slack:
                V('energy', 'block %s (%s) row %d r=%r: energy %r, reference %r' % (kw, name, i + 1, rr, E, j.v))
                break
            allow = PK.force_allowance(name, route, rr, uF + 1e-9 * abs(j.d1) + abs(j.d2) * dr_slack)
            if abs(Fo - (-j.d1)) > allow:
                V('force', 'block %s (%s) row %d r=%r: force %r, reference -dE/dr=%r (allowance %.3g)' % (kw, name, i + 1, rr, Fo, -j.d1, allow))
                break
    return viol


def run_case(case):
    omit = (case['nr'] + len(case['pots'])) % 2 == 0     # no target line: the documented default target is LAMMPS
    text = PK.produce(case, 'LAMMPS', omit_target=omit)
    try:
        blocks = RD.read_lammps_table(text)
    except RD.FormatError as e:
        return dict(outcome='format-error', nontrivial=True,
                    violations=[dict(sig='format-error', msg='unreadable pair_style table: %s' % e, detail={'text': text[:1500]})])
    viol = check_blocks(case, blocks)
    return dict(outcome='ok:%s:%d' % (case['route'], len(blocks)) if not viol else 'violation', nontrivial=True,
                evals=sum(len(b['rows']) for b in blocks), violations=viol)
