"""C10 - splined potentials keep their end potentials and join them with C2 continuity."""
import itertools, math

from .. import routes as R, models as M
from ..refmodel import expr as X, forms as F
from ..refmodel.expr import form, D, mod
from ..refmodel.jets import Jet

PROPERTY = 'C10'
LEVEL = 'exploration'
RULE = ('cases = (start, end) in {zbl, bornmayer, buck, morse, coul+buck, polynomial, exp_spline with C != 0, custom formula}^2 (positive and non-positive end values) x '
        '(detach, attach) lattice incl. integer-typed knots x r_min (3 interior points, buck4 type) x three constructions {Python classes, '
        'spline() modifier with > / >= markers, as.buck4 vs its documented long form}; each spline probed at 25+ separations (knots, '
        'nextafter neighbours, +-1e-6, interior lattice, outside); every case executed; non-trivial = every case (all end potentials curved)')
RULE += '; every spline also with its FIRST part carrying its own lower bound (>= and >, probed below / at / above it); as.buck4 with C = 0 and A = 0; detach / attach points at negative arguments (a function written in x = r - r_e and moved into place with trans()), exp_spline and buck4_spline, value and derivatives against the documented construction; 13 as.buck4 parametrisations that differ by 1e-7 relative in one parameter, built one after another in one process'
ASSUMPTIONS = [
    'the advertised shapes: exp(sum B_i r^i) + C from the public splineCoefficients; 5th-order polynomial below r_min, 3rd-order above',
    'continuity is judged on the advertised shape evaluated from splineCoefficients against exact jets of the end potentials; allowance = backward-error bound of the '
    'documented linear solve, 2e4*eps*(|A||x| + |b|) per join condition (in log space for the exponential spline), plus the documented finite-difference error when an '
    'end potential has no analytic derivative; no spline of the lattice is skipped',
    'lattices of knots and potentials, not all reals',
]
BOUNDS = {'quick': '64 end pairs (incl. a custom formula) x 18 knot pairs (integer-typed and far windows up to 11-12 A) x {exp_spline, buck4_spline x 3 r_min}', 'thorough': '64 end pairs x 34 knot pairs x 5 r_min'}

ENDS = {
    'zbl': form('zbl', 14, 8), 'bornmayer': form('bornmayer', 850.0, 0.35), 'buck': form('buck', 1000.0, 0.3, 32.0),
    'morse': form('morse', 1.8, 2.0, 0.6), 'coul+buck': mod('sum', form('coul', 2.4, -1.2), form('buck', 500.0, 0.32, 12.0)),
    'polynomial': form('polynomial', 3.0, -1.0, 0.2),
    'exp_spline+C': form('exp_spline', 0.5, -0.8, 0.05, 0.0, 0.0, 0.0, 0.75),     # as.exp_spline with a non-zero constant term as an end potential
    'custom': {"custom": "mix", "params": [700.0, 0.4]},      # a [Potential-Form] formula: no analytic derivatives, only through the spline() modifier
}


def knots(tier):
    if tier == 'quick':
        ks = [(d, a) for d in (0.6, 1.0, 1.2) for a in (1.4, 2.2, 2.6)]
    else:
        ks = [(d, a) for d in (0.6, 0.8, 1.0, 1.1, 1.2) for a in (1.4, 1.8, 2.2, 2.5, 2.6)]
    return ks + [(1, 3), (1, 2), (2, 3)] + [(4.0, 5.0), (6.0, 8.0), (7.5, 8.0), (9.0, 10.0), (9.5, 10.0), (11.0, 12.0)]


def cases(tier):
    out = []
    fr = (0.25, 0.5, 0.8) if tier == 'quick' else (0.1, 0.25, 0.5, 0.8, 0.95)
    for s, e in itertools.product(sorted(ENDS), sorted(ENDS)):
        for d, a in knots(tier):
            out.append(dict(start=s, end=e, detach=d, attach=a, kind='exp_spline', rmin=None))
            for f in fr:
                rm = d + f * (a - d)
                if isinstance(d, int) and isinstance(a, int) and f == 0.5 and (a - d) % 2 == 0:
                    rm = (a + d) // 2          # all three knots integer-typed
                out.append(dict(start=s, end=e, detach=d, attach=a, kind='buck4_spline', rmin=rm))
    # knots at negative arguments: a function written in x = rho - rho_e (or r - r_e) and moved into place with trans()
    for kind, rm in (('exp_spline', None), ('buck4_spline', -6.5), ('buck4_spline', -5.0)):
        for d_, a_ in ((-8.0, -4.0), (-3.0, -1.0), (-2.0, 0.0), (-1.5, 1.0)):
            if rm is not None and not d_ < rm < a_:
                continue
            out.append(dict(signed=True, kind=kind, rmin=rm, detach=d_, attach=a_))
    # as.buck4 shorthand against its documented long form
    for A, rho, C in ((1388.773, 0.3623, 175.0), (1000.0, 0.3, 30.0), (500, 1, 60), (1388.773, 0.3623, 0), (800.0, 0.29, 0.0), (0, 0.3, 30.0)):
        for rd, rm, ra in ((1.2, 2.1, 2.6), (1, 2, 3), (0.9, 1.5, 3.1), (1.5, 1.9, 2.2), (1.0, 1.3, 3.0)):
            out.append(dict(buck4=[A, rho, C, rd, rm, ra]))
    # several as.buck4 parametrisations in ONE process that agree to 6-7 significant digits (fitting loops, finite-difference sensitivities)
    for base in ((1388.773, 0.3623, 175.0, 1.2, 2.1, 2.6), (1000.0, 0.3, 30.0, 1.0, 2.0, 3.0)):
        seq = [list(base)]
        for i in range(6):
            for rel in (1e-7, -3e-7):
                v = list(base)
                v[i] = v[i] * (1.0 + rel)
                seq.append(v)
        out.append(dict(buck4_seq=seq))
    return out


def probes(d, a, rm):
    rs = [0.3, d - 0.2, d - 1e-6, math.nextafter(d, -math.inf), float(d), math.nextafter(d, math.inf), d + 1e-6]
    rs += [d + k * (a - d) / 8.0 for k in range(1, 8)]
    rs += [a - 1e-6, math.nextafter(a, -math.inf), float(a), math.nextafter(a, math.inf), a + 1e-6, a + 0.3, a + 2.0]
    if rm is not None:
        rs += [rm - 1e-6, math.nextafter(rm, -math.inf), float(rm), math.nextafter(rm, math.inf), rm + 1e-6]
    return sorted(set(r for r in rs if r > 0.05))


def item_of(name):
    it = ENDS[name]
    return it


def api_obj(it):
    return R.api_defn(D(it)) if 'mod' in it else R.api_item(it)


def refjet(it, r):
    return X.ev_item(it, r, M.env())


def cond_of(case):
    import numpy as np
    d, a, rm = float(case['detach']), float(case['attach']), case['rmin']
    if case['kind'] == 'exp_spline':
        rows = []
        for x in (d, a):
            rows.append([x ** k for k in range(6)])
        for x in (d, a):
            rows.append([k * x ** (k - 1) if k >= 1 else 0.0 for k in range(6)])
        for x in (d, a):
            rows.append([k * (k - 1) * x ** (k - 2) if k >= 2 else 0.0 for k in range(6)])
        return float(np.linalg.cond(np.array(rows)))
    # buck4: reuse the reference assembly through a dummy solve
    def p(x, n, k=0):
        out = []
        for i in range(n):
            c = 1.0
            for q in range(k):
                c *= (i - q)
            out.append(c * x ** (i - k) if i - k >= 0 else 0.0)
        return out
    Z4, Z6 = [0.0] * 4, [0.0] * 6
    neg = lambda v: [-t for t in v]  # noqa
    rm = float(rm)
    rows = [p(d, 6) + Z4, p(d, 6, 1) + Z4, p(d, 6, 2) + Z4, p(rm, 6, 1) + Z4,
            p(rm, 6) + neg(p(rm, 4)), p(rm, 6, 1) + neg(p(rm, 4, 1)), p(rm, 6, 2) + neg(p(rm, 4, 2)),
            Z6 + p(a, 4), Z6 + p(a, 4, 1), Z6 + p(a, 4, 2)]
    return float(np.linalg.cond(np.array(rows)))


def term_scale(kind, coeffs, rmin, r):
    """sum of the absolute values of the terms of the advertised shape and of its first two derivatives"""
    if kind == 'exp_spline':
        pj = F.polynomial(Jet.var(r), *coeffs[:6])
        ab = F.polynomial(Jet.var(abs(r)), *[abs(c) for c in coeffs[:6]])
        e = math.exp(pj.v)
        return e * (1 + ab.v) * (1 + ab.d1 + ab.d1 * ab.d1 + ab.d2) + abs(coeffs[6]) + 1.0
    c = coeffs[:6] if r < rmin else coeffs[6:]
    ab = F.polynomial(Jet.var(abs(r)), *[abs(x) for x in c])
    return ab.v + ab.d1 + ab.d2 + 1.0


def shape_jet(kind, coeffs, rmin, r):
    if kind == 'exp_spline':
        return F.exp_spline(Jet.var(r), *coeffs)
    c = coeffs[:6] if r < rmin else coeffs[6:]
    return F.polynomial(Jet.var(r), *c)


def check_spline(f, case, s_it, e_it, how, viol, s_obj=None, e_obj=None):
    """all oracles on one constructed spline callable f"""
    def V(sig, msg):
        viol.append(dict(sig=sig, msg='%s [%s -> %s, detach %r, attach %r, %s r_min %r]: %s'
                         % (how, case.get('start'), case.get('end'), case['detach'], case['attach'], case['kind'], case['rmin'], msg), detail={}))
    d, a, rm, kind = case['detach'], case['attach'], case['rmin'], case['kind']
    coeffs = list(f.splineCoefficients)
    if len(coeffs) != (7 if kind == 'exp_spline' else 10):
        V('coefficients', 'splineCoefficients has %d entries' % len(coeffs))
        return 0
    sj, ej = refjet(s_it, float(d)), refjet(e_it, float(a))
    n = 0
    K = 2e4 * M.EPS      # backward-error constant of the documented linear solve: row residual <= K * (|A| |x| + |b|)_row

    def numeric_end_error(it, j):
        """(e1, e2): error of the end potential's slope / curvature when it has no analytic derivative (documented fallback, h = 1e-6)"""
        if 'custom' not in it:
            return 0.0, 0.0
        return 60 * M.EPS * abs(j.v) / M.H + 1e-7 * abs(j.d1), 240 * M.EPS * abs(j.v) / (M.H * M.H) + 60 * M.EPS * abs(j.d1) / M.H + 1e-5 * abs(j.d2)
    # (1) C2 joins of the advertised shape with the end potentials
    for name, x, ref, it in (('detach', float(d), sj, s_it), ('attach', float(a), ej, e_it)):
        e1, e2 = numeric_end_error(it, ref)
        if kind == 'exp_spline':
            sh = F.exp_spline(Jet.var(x), *coeffs)
            Y = ref.v - coeffs[6]
            if Y <= 0:
                V('join-value', 'the shifted end value at %s is not positive (C = %r, end value %r)' % (name, coeffs[6], ref.v))
                return n
            P1 = ref.d1 / Y
            P2 = ref.d2 / Y - P1 * P1
            ab = F.polynomial(Jet.var(abs(x)), *[abs(c) for c in coeffs[:6]])
            t0 = K * (ab.v + abs(math.log(Y)) + 1.0)
            t1 = K * (ab.d1 + abs(P1) + 1.0) + e1 / Y
            t2 = K * (ab.d2 + abs(P2) + P1 * P1 + 1.0) + e2 / Y + 2 * abs(P1) * e1 / Y
            tols = (Y * t0, Y * (abs(P1) * t0 + t1), Y * ((abs(P2) + P1 * P1) * t0 + 2 * abs(P1) * t1 + t2))
        else:
            cs = coeffs[:6] if name == 'detach' else coeffs[6:]
            sh = F.polynomial(Jet.var(x), *cs)
            ab = F.polynomial(Jet.var(abs(x)), *[abs(c) for c in cs])
            tols = (K * (ab.v + abs(ref.v) + 1.0), K * (ab.d1 + abs(ref.d1) + 1.0) + e1, K * (ab.d2 + abs(ref.d2) + 1.0) + e2)
        for q, got, want, t in (('value', sh.v, ref.v, tols[0]), ('slope', sh.d1, ref.d1, tols[1]), ('curvature', sh.d2, ref.d2, tols[2])):
            n += 1
            if not abs(got - want) <= t:
                V('join-%s' % q, '%s of the spline at %s = %r, end potential has %r (allowance %.3g)' % (q, name, got, want, t))
                return n
    if kind == 'buck4_spline':
        x = float(rm)
        lo, hi = F.polynomial(Jet.var(x), *coeffs[:6]), F.polynomial(Jet.var(x), *coeffs[6:])
        a5 = F.polynomial(Jet.var(abs(x)), *[abs(c) for c in coeffs[:6]])
        a3 = F.polynomial(Jet.var(abs(x)), *[abs(c) for c in coeffs[6:]])
        for q, g1, g2, t in (('value', lo.v, hi.v, K * (a5.v + a3.v + 1.0)), ('slope', lo.d1, hi.d1, K * (a5.d1 + a3.d1 + 1.0)), ('curvature', lo.d2, hi.d2, K * (a5.d2 + a3.d2 + 1.0))):
            n += 1
            if not abs(g1 - g2) <= t:
                V('rmin-%s' % q, '%s jumps across r_min: %r vs %r (allowance %.3g)' % (q, g1, g2, t))
                return n
        if not abs(lo.d1) <= K * (a5.d1 + 1.0):
            V('rmin-stationary', 'slope at r_min is %r, expected 0' % lo.d1)
            return n
    # (2) pointwise: start below detach, end above attach (bit-identical to the end potentials), shape in between
    for r in probes(d, a, rm):
        n += 1
        got = (f(r), f.deriv(r), f.deriv2(r))
        if r <= d or r >= a:
            obj = s_obj if r <= d else e_obj
            if obj is not None:
                want = (obj(r), obj.deriv(r), obj.deriv2(r))
                if got != want:
                    V('end-potential', 'at r=%r (%s) returns %r, the %s potential gives %r' % (r, 'r<=detach' if r <= d else 'r>=attach', got, 'start' if r <= d else 'end', want))
                    return n
            j = refjet(s_it if r <= d else e_it, r)
            sc = abs(j.v) + abs(j.d1) + abs(j.d2) + 1.0
            ne1, ne2 = numeric_end_error(s_it if r <= d else e_it, j)
            if not (abs(got[0] - j.v) <= 1e-9 * sc and abs(got[1] - j.d1) <= 1e-9 * sc + ne1 and abs(got[2] - j.d2) <= 1e-9 * sc + ne2):
                V('end-potential', 'at r=%r returns %r, reference end potential %r' % (r, got, (j.v, j.d1, j.d2)))
                return n
        else:
            sh = shape_jet(kind, coeffs, rm, r)
            sc = term_scale(kind, coeffs, rm, r)
            if not (abs(got[0] - sh.v) <= 1e-11 * sc and abs(got[1] - sh.d1) <= 1e-11 * sc and abs(got[2] - sh.d2) <= 1e-11 * sc):
                V('advertised-shape', 'at r=%r returns %r, the advertised shape with the public coefficients gives %r' % (r, got, (sh.v, sh.d1, sh.d2)))
                return n
    return n


def run_signed(case):
    """spline(...) with detach / attach points at negative arguments, placed with trans(): the modifier route against the reference semantics"""
    d_, a_, kind, rm = case['detach'], case['attach'], case['kind'], case['rmin']
    sp = {"mod": "spline", "start": form('polynomial', 5.0, 0.3, 0.02), "detach": ['>', d_], "kind": kind, "rmin": rm, "attach": ['>', a_],
          "end": form('polynomial', 2.0, -0.2, 0.01), "first": ['>', -30.0]}
    dd = D(mod('trans', D(('>', -30.0, sp)), x=-25.0))
    fn = R.config_read(M.pair_ini('LAMMPS', [('A', 'B', dd)], 40.0, 6)).potentials[0].potentialFunction
    viol, n = [], 0
    env = M.env()
    rs = sorted(set([25.0 + t for t in (d_ - 2.0, d_ - 0.5, d_, d_ + 0.25 * (a_ - d_), 0.5 * (d_ + a_), d_ + 0.9 * (a_ - d_), a_, a_ + 0.5, a_ + 3.0)]))
    for r in rs:
        j = X.ev_defn(dd, r, env)
        for which, want in (('__call__', j.v), ('deriv', j.d1), ('deriv2', j.d2)):
            if which != '__call__' and not hasattr(fn, which):
                continue
            got = fn(r) if which == '__call__' else getattr(fn, which)(r)
            n += 1
            if not abs(got - want) <= 1e-7 * (abs(want) + abs(j.v) + 1.0):
                viol.append(dict(sig='signed-knots:%s' % which, msg='%s: %s(%r) = %r, the documented construction gives %r (detach %r, attach %r at x = r - 25)'
                                 % (X.render_defn(dd), which, r, got, want, d_, a_), detail={}))
                break
        if viol:
            break
    return dict(outcome='ok:signed:%s' % kind if not viol else 'violation', nontrivial=True, evals=n, violations=viol)


def run_case(case):
    viol = []
    if case.get('signed'):
        return run_signed(case)
    if 'buck4_seq' in case:
        tot = dict(outcome='ok:buck4-seq', nontrivial=True, evals=0, violations=[])
        for vec in case['buck4_seq']:
            res = run_buck4(dict(buck4=vec))
            tot['evals'] += res['evals']
            if res['violations']:
                for v in res['violations']:
                    v['msg'] = 'after %d nearly equal as.buck4 parametrisations in this process: %s' % (case['buck4_seq'].index(vec), v['msg'])
                tot.update(outcome='violation', violations=res['violations'])
                break
        return tot
    if 'buck4' in case:
        return run_buck4(case)
    s_it, e_it = item_of(case['start']), item_of(case['end'])
    d, a, rm, kind = case['detach'], case['attach'], case['rmin'], case['kind']
    from atsim.potentials.spline import SplinePotential, Buck4_SplinePotential, Custom_SplinePotential, Spline_Point, Exp_Spline, Buck4_Spline
    n = 0
    objs = []
    has_api = 'custom' not in s_it and 'custom' not in e_it
    so = eo = None
    if has_api:
        so, eo = api_obj(s_it), api_obj(e_it)
    if not has_api:
        pass
    elif kind == 'exp_spline':
        objs.append(('SplinePotential', SplinePotential(so, eo, d, a), so, eo))
        so2, eo2 = api_obj(s_it), api_obj(e_it)
        objs.append(('Custom_SplinePotential(Exp_Spline)', Custom_SplinePotential(Exp_Spline(Spline_Point(so2, d), Spline_Point(eo2, a))), so2, eo2))
    else:
        objs.append(('Buck4_SplinePotential', Buck4_SplinePotential(so, eo, d, a, rm), so, eo))
        so2, eo2 = api_obj(s_it), api_obj(e_it)
        objs.append(('Custom_SplinePotential(Buck4_Spline)', Custom_SplinePotential(Buck4_Spline(Spline_Point(so2, d), Spline_Point(eo2, a), rm)), so2, eo2))
    if has_api:
        # the same two Spline_Point objects serve several splines, one after the other (exp, buck4-type, exp again)
        so3, eo3 = api_obj(s_it), api_obj(e_it)
        p1, p2 = Spline_Point(so3, d), Spline_Point(eo3, a)
        rm3 = rm if rm is not None else 0.5 * (float(d) + float(a))
        first = Custom_SplinePotential(Exp_Spline(p1, p2))
        second = Custom_SplinePotential(Buck4_Spline(p1, p2, rm3))
        third = Custom_SplinePotential(Exp_Spline(p1, p2))
        objs.append(('spline points re-used: 3rd spline, %s' % kind, third if kind == 'exp_spline' else Custom_SplinePotential(Buck4_Spline(p1, p2, rm)), so3, eo3))
    for mk1, mk2 in (('>', '>'), ('>=', '>=')):
        sp = {"mod": "spline", "start": s_it, "detach": [mk1, d], "kind": kind, "rmin": rm, "attach": [mk2, a], "end": e_it, "first": None}
        ini = M.pair_ini('LAMMPS', [('A', 'B', D(sp))], 5.0, 6)
        fn = R.config_read(ini).potentials[0].potentialFunction
        # the tabulated callable is a multi-range wrapper (default range > 0) around the spline object
        inner = fn.range_defns[0].potential_form if hasattr(fn, 'range_defns') else fn
        objs.append(('spline() modifier %s %s' % (mk1, mk2), inner, None, None))
    # the first part of spline() may carry its own lower bound: below it the potential is zero, above it the start potential
    for fm, frac in (('>=', 0.5), ('>', 0.25)):
        lb = frac * float(d)
        dsp = D({"mod": "spline", "start": s_it, "detach": ['>', d], "kind": kind, "rmin": rm, "attach": ['>=', a], "end": e_it, "first": [fm, lb]})
        fn = R.config_read(M.pair_ini('LAMMPS', [('A', 'B', dsp)], 5.0, 6)).potentials[0].potentialFunction
        for r in (0.2 * lb, math.nextafter(lb, -math.inf), lb, math.nextafter(lb, math.inf), 0.5 * (lb + float(d)), a + 0.5):
            j = X.ev_defn(dsp, r, M.env())
            n += 1
            if not abs(fn(r) - j.v) <= 1e-9 * (abs(j.v) + 1.0):
                viol.append(dict(sig='first-part-range', msg='spline(%s%r %s ...) [%s -> %s]: value at r=%r is %r, expected %r (the first part starts at %s%r)'
                                 % (fm, lb, case['start'], case['start'], case['end'], r, fn(r), j.v, fm, lb), detail={}))
                break
        if viol:
            break
    ref_coeffs = None
    for how, f, so_, eo_ in ([] if viol else objs):
        n += check_spline(f, case, s_it, e_it, how, viol, so_, eo_)
        if viol:
            break
        # (3) the constructions give the same function: identical coefficients and identical values
        co = tuple(f.splineCoefficients)
        if ref_coeffs is None:
            ref_coeffs, ref_how, ref_f = co, how, f
        else:
            if co != ref_coeffs:
                sc = max(abs(c) for c in ref_coeffs) + 1e-300
                if max(abs(x - y) for x, y in zip(co, ref_coeffs)) > 1e-9 * sc:
                    viol.append(dict(sig='constructions-differ', msg='%s and %s give different spline coefficients for %s -> %s (%r, %r, %r): %r vs %r'
                                     % (how, ref_how, case['start'], case['end'], d, rm, a, co, ref_coeffs), detail={}))
                    break
            for r in probes(d, a, rm):
                if r <= 0:
                    continue
                v1, v2 = f(r), ref_f(r)
                if abs(v1 - v2) > 1e-9 * (abs(v2) + 1.0):
                    viol.append(dict(sig='constructions-differ', msg='%s and %s differ at r=%r: %r vs %r' % (how, ref_how, r, v1, v2), detail={}))
                    break
            if viol:
                break
    return dict(outcome='ok:%s' % kind if not viol else 'violation', nontrivial=True, evals=n, violations=viol)


def run_buck4(case):
    """as.buck4 A rho C rd rm ra == spline(as.buck A rho 0 >rd buck4_spline rm >ra as.buck 0 1 C) == Python buck4()"""
    viol = []
    A, rho, C, rd, rm, ra = case['buck4']
    from atsim.potentials import potentialforms as pf
    short = 'as.buck4 %s' % ' '.join(X.num(v) for v in case['buck4'])
    longf = 'spline(as.buck %s %s 0 >%s buck4_spline %s >%s as.buck 0 1 %s)' % tuple(X.num(v) for v in (A, rho, rd, rm, ra, C))
    fs = []
    for text in (short, longf):
        ini = '[Tabulation]\ntarget : LAMMPS\nnr : 3\ncutoff : 1.0\n\n[Pair]\nA-B : %s\n' % text
        fs.append((text, R.config_read(ini).potentials[0].potentialFunction))
    fs.append(('potentialforms.buck4(...)', pf.buck4(A, rho, C, rd, rm, ra)))
    n = 0
    c2 = dict(start='bornmayer', end='dispersion', detach=rd, attach=ra, kind='buck4_spline', rmin=rm)
    s_it, e_it = form('bornmayer', A, rho), form('buck', 0.0, 1.0, C)
    for how, f in fs:
        inner = f.range_defns[0].potential_form if hasattr(f, 'range_defns') else f
        n += check_spline(inner, c2, s_it, e_it, how, viol)
        if viol:
            break
    if not viol:
        for r in probes(rd, ra, rm):
            vals = [(f(r), f.deriv(r), f.deriv2(r)) for _h, f in fs]
            n += 1
            for (h, _f), v in zip(fs[1:], vals[1:]):
                if any(abs(x - y) > 1e-9 * (abs(y) + 1.0) for x, y in zip(v, vals[0])):
                    viol.append(dict(sig='buck4-shorthand', msg='%s gives %r at r=%r but %s gives %r' % (h, v, r, fs[0][0], vals[0]), detail={}))
                    break
            if viol:
                break
    return dict(outcome='ok:buck4' if not viol else 'violation', nontrivial=True, evals=n, violations=viol)
