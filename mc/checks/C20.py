"""C20 - each interaction / form is defined at most once; duplicates are rejected."""
import io

from .. import routes as R
from ..initext import Ini

PROPERTY = 'C20'
LEVEL = 'exploration'
RULE = ('cases = 4 base models (pair with custom and table forms; EAM; Finnis-Sinclair; pair model with non-alphabetical pair keys) x every entry '
        'of every [Pair], [EAM-Embed], [EAM-Density], [Potential-Form] section and every [Table-Form:NAME] section x every applicable '
        'duplication operator (identical key with ":" or "="; reversed pair, both orders of appearance; whitespace variants of A-B, A->B, '
        'species keys, f(r,A); same form label with other parameter names / arity; Table-Form:NAME spelt with blanks; a table form named like '
        'a custom form or like a built-in form; a formula named like a table form; a repeated section) x position of the duplicate '
        '{directly after, end of section, start of section}, the duplicate carrying a DIFFERENT definition; through '
        'Configuration.read and potable; plus the un-duplicated controls, whose tabulated functions must follow their single definition')
RULE += '; further models: ADP sections, labels differing only in case (CA-Ca / Ca-CA), a second table form sorting between blank-variants, a table form with capitals; Unicode blanks in keys; the same new item added twice through additional= / --add-item; a repeated section header with blanks inside the brackets; every case also through a species filter that keeps all species; a table form defined twice with BOTH headers spelt with blanks (25 ordered pairs of spellings); items added twice to a section the file does not have yet (custom form, table form, ADP, embedding, density)'
ASSUMPTIONS = [
    'a duplicate is "rejected" when Configuration().read raises a ConfigurationException subclass and potable reports "configuration error" (exit 2) and writes no non-empty table',
    'pymath.* names are not in the statement list (pair, density, embedding, custom form, table form); ADP dipole / quadrupole entries are treated as pair interactions',
]
BOUNDS = {'quick': '4 models, every entry, 20 operators, 3 positions', 'thorough': 'same space (already complete) through both routes for every case'}


def models():
    pair = Ini([['Tabulation', [['target', 'LAMMPS'], ['nr', '4'], ['cutoff', '2.0']]],
                ['Pair', [['O-O', 'as.buck 1000.0 0.3 32.0'], ['U-O', 'cbuck 800.0 0.35'], ['U-U', 'sum(as.bornmayer 850.0 0.35, tf)'], ['Th-Th', 'aa'], ['Zr-Zr', 'Rep_ZrZr']]],
                ['Potential-Form', [['cbuck(r,A,rho)', 'A*exp(-r/rho) + 1.0/r'], ['helper(r,s)', 's/r^2']]],
                ['Table-Form:tf', [['x', '0 1 2 3'], ['y', '3 2 1 0.5']]],
                # a second table form whose section name sorts between the blank-variants of the first
                ['Table-Form:aa', [['xy', '0 5 1 4 2 2 3 1']]],
                # a table form whose name contains capitals
                ['Table-Form:Rep_ZrZr', [['xy', '0 7 1 5 2 2 3 0.5']]]])
    tab = [['nr', '3'], ['cutoff', '2.0'], ['nrho', '3'], ['cutoff_rho', '10.0']]
    eam = Ini([['Tabulation', [['target', 'setfl']] + tab],
               ['EAM-Embed', [['Cu', '>=0 as.polynomial 0.2 -1.3 0.02'], ['Al', '>=0 as.polynomial 0.1 -1.0 0.01']]],
               ['EAM-Density', [['Al', '>=0 as.exp_spline 0.7 -0.9 0.01 0 0 0 0'], ['Cu', '>=0 as.exp_spline 0.9 -1.0 0.02 0 0 0 0.05']]],
               ['Pair', [['Cu-Al', '>=0 as.morse 1.3 2.05 0.35'], ['Al-Al', '>=0 as.morse 1.2 2.0 0.3']]]])
    fs = Ini([['Tabulation', [['target', 'setfl_fs']] + tab],
              ['EAM-Embed', [['Al', '>=0 as.polynomial 0.1 -1.0 0.01'], ['Cu', '>=0 as.polynomial 0.2 -1.3 0.02']]],
              ['EAM-Density', [['Al->Cu', '>=0 as.exp_spline 0.2 -1.1 0.02 0 0 0 0'], ['Cu->Al', '>=0 as.exp_spline 0.3 -1.1 0.02 0 0 0 0'],
                               ['Cu->Cu', '>=0 as.exp_spline 0.4 -1.1 0.02 0 0 0 0']]],
              ['Pair', [['Al-Cu', '>=0 as.morse 1.3 2.05 0.35']]]])
    rev = Ini([['Tabulation', [['target', 'GULP'], ['nr', '4'], ['cutoff', '2.0']]],
               ['Pair', [['U-O', '>=0 as.polynomial 1.0 2.0'], ['Si-Al', '>=0 as.polynomial 2.0 3.0'], ['O-Mg', '>=0 as.polynomial 3.0 4.0'], ['Al-O', '>=0 as.polynomial 4.0 5.0']]]])
    adp = eam.copy()
    adp.section('Tabulation')[1][0][1] = 'eam_adp'
    adp.sections.append(['EAM-ADP-Dipole', [['Al-Al', '>=0 as.polynomial 0.5 -0.2 0.01'], ['Cu-Al', '>=0 as.polynomial 0.6 -0.2 0.01']]])
    adp.sections.append(['EAM-ADP-Quadrupole', [['Cu-Cu', '>=0 as.morse 0.75 1.3 0.2'], ['Al-Cu', '>=0 as.morse 0.85 1.3 0.21']]])
    # species labels that differ only in letter case are different species: CA-Ca is a hetero pair, its reverse a duplicate
    case = Ini([['Tabulation', [['target', 'LAMMPS'], ['nr', '4'], ['cutoff', '2.0']]],
                ['Pair', [['CA-Ca', '>=0 as.polynomial 1.0 2.0'], ['o-O', '>=0 as.polynomial 2.0 3.0'], ['Ca-O', '>=0 as.polynomial 3.0 4.0'], ['O-O', '>=0 as.polynomial 4.0 5.0']]]])
    return {'pair': pair, 'eam': eam, 'fs': fs, 'rev': rev, 'adp': adp, 'case': case}


ALT = {'EAM-ADP-Dipole': '>=0 as.polynomial 6.5 -0.5', 'EAM-ADP-Quadrupole': '>=0 as.polynomial 5.5 0.5', 'Pair': '>=0 as.polynomial 7.5 -0.25', 'EAM-Embed': '>=0 as.polynomial 9.5 -0.75', 'EAM-Density': '>=0 as.polynomial 8.5 0.125',
       'Potential-Form': '42.0 + r'}


def key_variants(section, key):
    """(operator name, duplicate key text) pairs for one entry"""
    out = [('identical', key)]
    if section in ('Pair', 'EAM-ADP-Dipole', 'EAM-ADP-Quadrupole'):
        a, b = key.split('-')
        out += [('ws:A - B', '%s - %s' % (a, b)), ('ws:A -B', '%s -%s' % (a, b)), ('ws:tab', '%s\t-\t%s' % (a, b)),
                ('ws:no-break-space', '%s\u00a0-\u00a0%s' % (a, b)), ('ws:ideographic-space', '%s\u3000-%s' % (a, b))]
        if a != b:
            out += [('reversed', '%s-%s' % (b, a)), ('reversed+ws', '%s - %s' % (b, a))]
    elif section == 'EAM-Density' and '->' in key:
        a, b = key.split('->')
        out += [('ws:A -> B', '%s -> %s' % (a, b)), ('ws:A ->B', '%s ->%s' % (a, b)), ('ws:tab', '%s\t->%s' % (a, b)),
                ('ws:no-break-space', '%s\u00a0->\u00a0%s' % (a, b))]
    elif section in ('EAM-Embed', 'EAM-Density'):
        out += [('ws:inner', key[0] + ' ' + key[1:])] if len(key) > 1 else []
    elif section == 'Potential-Form':
        label, rest = key.split('(', 1)
        params = rest.rstrip(')').split(',')
        out += [('ws:f(r, A)', '%s(%s)' % (label, ', '.join(params))), ('ws:f( r,A )', '%s( %s )' % (label, ','.join(params))),
                ('ws:no-break-space', '%s(%s)' % (label, ',\u00a0'.join(params))),
                ('other-parameter-names', '%s(r,%s)' % (label, ','.join('q%d' % i for i in range(len(params) - 1)))),
                ('other-arity', '%s(%s,extra)' % (label, ','.join(params)))]
    return out


def cases(tier):
    out = []
    M = models()
    for mname in sorted(M):
        ini = M[mname]
        out.append(dict(model=mname, op='control', sections=ini.to_json()))
        for si, (sname, entries) in enumerate(ini.sections):
            if sname in ('Pair', 'EAM-Embed', 'EAM-Density', 'Potential-Form', 'EAM-ADP-Dipole', 'EAM-ADP-Quadrupole'):
                for ei, (k, v) in enumerate(entries):
                    for opname, dupkey in key_variants(sname, k):
                        for pos in ('after', 'end', 'start'):
                            for sep in ((':', '=') if opname == 'identical' else (':',)):
                                d = ini.copy()
                                ent = d.sections[si][1]
                                new = [dupkey, ALT[sname]]
                                if pos == 'after':
                                    ent.insert(ei + 1, new)
                                elif pos == 'end':
                                    if ei == len(ent) - 1:
                                        continue
                                    ent.append(new)
                                else:
                                    if ei == 0:
                                        continue
                                    ent.insert(0, new)
                                out.append(dict(model=mname, op='%s:%s' % (sname, opname), pos=pos, sep=sep, sections=d.to_json(), dup=[sname, dupkey],
                                                orig=[sname, k]))
            if sname.startswith('Table-Form:'):
                name = sname.split(':', 1)[1]
                for opname, header in (('table:identical', 'Table-Form:%s' % name), ('table:ws-before', 'Table-Form: %s' % name), ('table:ws-after', 'Table-Form:%s ' % name),
                                       ('table:ws-before-colon', 'Table-Form :%s' % name), ('table:tab-before-colon', 'Table-Form\t:%s' % name)):
                    d = ini.copy()
                    d.sections.append([header, [['x', '0 1 2 3'], ['y', '9 9 9 9']]])
                    out.append(dict(model=mname, op=opname, pos='end', sep=':', sections=d.to_json(), dup=[header, ''], orig=[sname, '']))
                # BOTH headers written with blanks: every ordered pair of six spellings of one table-form header
                spell = ['Table-Form:%s', 'Table-Form: %s', 'Table-Form:%s ', 'Table-Form :%s', 'Table-Form\t:%s', 'Table-Form : %s']
                for h1 in spell[1:]:
                    for h2 in spell[1:]:
                        d = ini.copy()
                        d.sections[si][0] = h1 % name
                        d.sections.append([h2 % name, [['x', '0 1 2 3'], ['y', '9 9 9 9']]])
                        out.append(dict(model=mname, op='table:both-spelt-with-blanks', pos='end', sep=':', sections=d.to_json(), dup=[h2 % name, ''], orig=[h1 % name, '']))
                # a formula named like the table form, and a table form named like a custom / built-in form
                d = ini.copy()
                d.section('Potential-Form')[1].append(['%s(r)' % name, '42.0 + r'])
                out.append(dict(model=mname, op='formula-named-like-table', pos='end', sep=':', sections=d.to_json(), dup=['Potential-Form', name], orig=[sname, '']))
                d = ini.copy()
                d.sections.insert(1, ['Potential-Form-placeholder', []])
                d.sections.pop(1)
                for other, opn in (('cbuck', 'table-named-like-formula'), ('as.buck', 'table-named-like-builtin'), ('as.zero', 'table-named-like-builtin'),
                                   ('as.buck4', 'table-named-like-builtin-factory')):
                    d = ini.copy()
                    d.sections.append(['Table-Form:%s' % other, [['x', '0 1 2 3'], ['y', '9 9 9 9']]])
                    out.append(dict(model=mname, op=opn, pos='end', sep=':', sections=d.to_json(), dup=['Table-Form:%s' % other, ''], orig=['', other]))
                    d2 = ini.copy()
                    d2.sections.insert(1, ['Table-Form:%s' % other, [['x', '0 1 2 3'], ['y', '9 9 9 9']]])
                    out.append(dict(model=mname, op=opn, pos='start', sep=':', sections=d2.to_json(), dup=['Table-Form:%s' % other, ''], orig=['', other]))
        # the same new item added twice through `additional=` / --add-item (identical and whitespace-variant keys)
        for sname, k1, k2 in (('Pair', 'Zz-Zz', 'Zz-Zz'), ('Pair', 'Zz-Zz', 'Zz - Zz'), ('EAM-Embed', 'Zz', 'Zz'), ('EAM-Density', 'Zz', 'Zz'),
                              ('Potential-Form', 'zz(r,A)', 'zz(r, A)'), ('Potential-Form', 'zz(r,A)', 'zz(r,A)')):
            # (also when the file has no such section yet: the first addition creates it, the second one defines the item again)
            out.append(dict(model=mname, op='added-twice%s:%s' % ('' if ini.section(sname) else '-new-section', sname), pos='end', sep=':', sections=ini.to_json(), dup=[sname, k2], orig=[sname, k1],
                            additional=[[sname, k1, ALT[sname] if sname != 'Potential-Form' else 'A*r'], [sname, k2, 'as.zero' if sname != 'Potential-Form' else '2*A*r']]))
        for sname, k1, k2, v1, v2 in (('Table-Form:zz', 'xy', 'xy', '0 1 1 2 2 3 3 4', '0 4 1 3 2 2 3 1'), ('Table-Form:zz', 'xy', 'x y', '0 1 1 2 2 3 3 4', '0 4 1 3 2 2 3 1'),
                                      ('EAM-ADP-Dipole', 'Zz-Zz', 'Zz - Zz', ALT['EAM-ADP-Dipole'], 'as.zero'), ('EAM-ADP-Quadrupole', 'Zz-Yy', 'Zz -Yy', ALT['EAM-ADP-Quadrupole'], 'as.zero')):
            if not ini.section(sname):
                out.append(dict(model=mname, op='added-twice-new-section:%s' % sname.split(':')[0], pos='end', sep=':', sections=ini.to_json(), dup=[sname, k2], orig=[sname, k1],
                                additional=[[sname, k1, v1], [sname, k2, v2]]))
        # a section name that differs from an existing one only by blanks, supplied through --add-item
        for sname in ('Pair', 'EAM-Embed'):
            if ini.section(sname):
                out.append(dict(model=mname, op='added-section-blank-variant:%s' % sname, pos='end', sep=':', sections=ini.to_json(), dup=[sname + ' ', ''], orig=[sname, ''],
                                additional=[[sname + ' ', 'Zz-Zz' if sname == 'Pair' else 'Zz', ALT[sname]]], hijack=True))
        # a repeated section
        for sname in ('Pair', 'Potential-Form', 'EAM-Embed'):
            if ini.section(sname):
                d = ini.copy()
                d.sections.append([sname, [['Zz-Zz' if sname == 'Pair' else ('zz(r)' if sname == 'Potential-Form' else 'Zz'), ALT.get(sname, 'as.zero')]]])
                out.append(dict(model=mname, op='repeated-section:%s' % sname, pos='end', sep=':', sections=d.to_json(), dup=[sname, ''], orig=[sname, '']))
                # the repeated section header written with blanks inside the brackets, holding a second definition of the first entry
                for hdr in (sname + ' ', ' ' + sname, sname + '\t'):
                    d = ini.copy()
                    d.sections.append([hdr, [[ini.section(sname)[1][0][0], ALT.get(sname, 'as.zero')]]])
                    out.append(dict(model=mname, op='repeated-section-blank-variant:%s' % sname, pos='end', sep=':', sections=d.to_json(), dup=[hdr, ''], orig=[sname, '']))
    return out


def render(case):
    ini = Ini.from_json(case['sections'])
    sep = ' %s ' % case.get('sep', ':')
    return ini.render(sep)


def run_hijack(case, text, what, adds):
    """adding an item to a section whose name differs only by blanks must not replace the real section: rejected, or the same as adding it to the real section"""
    from atsim.potentials.config import ConfigParser, Configuration
    from atsim.potentials.config._common import ConfigurationException
    viol = []
    from atsim.potentials.config import ConfigParserOverrideTuple as T_
    # blanks around a section name are not part of it: the addition goes to the real section (or is refused) - it never replaces that section
    try:
        want = R.write_tabulation(Configuration().read_from_parser(ConfigParser(io.StringIO(text), additional=[T_(a.section.strip(), a.key, a.value) for a in adds])))
    except ConfigurationException:
        want = None            # the addition to the real section is itself refused (e.g. an embedding function for an unknown element)
    try:
        cp = ConfigParser(io.StringIO(text), additional=adds)
        got = R.write_tabulation(Configuration().read_from_parser(cp))
        if want is None or got != want:
            viol.append(dict(sig='section-hijacked:%s' % case['op'], msg='%s: adding %r replaced the real section: the table changed (%d -> %d bytes)' % (what, case['additional'], len(want), len(got)), detail={}))
    except ConfigurationException:
        pass
    except Exception as e:  # noqa
        viol.append(dict(sig='duplicate-internal-exception:%s:%s' % (case['op'], type(e).__name__), msg='%s: %s: %s' % (what, type(e).__name__, e), detail={}))
    return dict(outcome='ok:hijack' if not viol else 'violation', nontrivial=True, evals=1, violations=viol)


def run_additional(case, text, what):
    from atsim.potentials.config import ConfigParser, ConfigParserOverrideTuple as T
    from atsim.potentials.config._common import ConfigurationException
    viol = []
    adds = [T(*a) for a in case['additional']]
    if case.get('hijack'):
        return run_hijack(case, text, what, adds)
    try:
        cp = ConfigParser(io.StringIO(text), additional=adds)
        viol.append(dict(sig='duplicate-accepted:%s' % case['op'], msg='%s: ConfigParser(additional=%r) accepted both additions' % (what, case['additional']), detail={}))
    except ConfigurationException:
        pass
    except Exception as e:  # noqa
        viol.append(dict(sig='duplicate-internal-exception:%s:%s' % (case['op'], type(e).__name__), msg='%s: %s: %s' % (what, type(e).__name__, e), detail={}))
    args = []
    for a in case['additional']:
        args += ['-a', '%s:%s=%s' % tuple(a)]
    res = R.potable(text, args=args)
    if res.exc is not None:
        viol.append(dict(sig='duplicate-internal-exception:%s:%s' % (case['op'], type(res.exc).__name__), msg='potable %s: %s' % (' '.join(args), res.exc), detail={}))
    elif not res.config_error:
        viol.append(dict(sig='duplicate-accepted:%s' % case['op'], msg='potable %s on model %s: exit status %r' % (' '.join(args), case['model'], res.status), detail={}))
    seen, uniq = set(), []
    for v in viol:
        if v['sig'] not in seen:
            seen.add(v['sig'])
            uniq.append(v)
    return dict(outcome='rejected:added-twice' if not viol else 'violation', nontrivial=True, evals=2, violations=uniq)


def run_case(case):
    from atsim.potentials.config import Configuration
    from atsim.potentials.config._common import ConfigurationException
    text = render(case)
    viol = []
    if case['op'] == 'control':
        try:
            tab = R.config_read(text)
            data = R.write_tabulation(tab)
            if not data:
                viol.append(dict(sig='control-empty', msg='control model %s produced no output' % case['model'], detail={}))
        except Exception as e:  # noqa
            viol.append(dict(sig='control-rejected', msg='the un-duplicated model %s is refused: %s: %s' % (case['model'], type(e).__name__, e), detail={'text': text}))
        res = R.potable(text)
        if res.status != 0:
            viol.append(dict(sig='control-rejected', msg='potable refuses the un-duplicated model %s: %s' % (case['model'], res.stderr[-200:]), detail={}))
        return dict(outcome='ok:control', nontrivial=True, evals=2, violations=viol)
    what = '%s (%s, duplicate %r placed %s)' % (case['op'], case['model'], case['dup'], case['pos'])
    if case.get('additional'):
        return run_additional(case, text, what)
    try:
        tab = R.config_read(text)
        # accepted: find out which definition the tabulated function follows
        follows = ''
        try:
            data = R.write_tabulation(tab)
            follows = ' (a table of %d bytes was written)' % len(data)
        except Exception as e2:  # noqa
            follows = ' (writing then raised %s)' % type(e2).__name__
        viol.append(dict(sig='duplicate-accepted:%s' % case['op'], msg='%s: the second definition was accepted silently%s' % (what, follows), detail={'text': text}))
    except ConfigurationException:
        pass
    except Exception as e:  # noqa
        viol.append(dict(sig='duplicate-internal-exception:%s:%s' % (case['op'], type(e).__name__), msg='%s: %s: %s instead of a configuration error' % (what, type(e).__name__, e), detail={'text': text}))
    res = R.potable(text)
    if res.exc is not None:
        viol.append(dict(sig='duplicate-internal-exception:%s:%s' % (case['op'], type(res.exc).__name__), msg='potable, %s: %s: %s' % (what, type(res.exc).__name__, res.exc), detail={'text': text}))
    elif not res.config_error:
        viol.append(dict(sig='duplicate-accepted:%s' % case['op'], msg='potable, %s: exit status %r, %d bytes written' % (what, res.status, len(res.out_bytes or '')), detail={'text': text}))
    elif res.out_bytes:
        viol.append(dict(sig='duplicate-rejected-but-wrote', msg='potable, %s: configuration error but %d bytes in the output file' % (what, len(res.out_bytes)), detail={}))
    # the same through a species filter that keeps every species of the model (the duplicate is still a duplicate)
    for fargs in (['--exclude-species', 'Zz'], ['--exclude-species']):
        res = R.potable(text, args=fargs)
        if res.exc is not None:
            viol.append(dict(sig='duplicate-internal-exception:%s:%s' % (case['op'], type(res.exc).__name__), msg='potable %s, %s: %s: %s' % (' '.join(fargs), what, type(res.exc).__name__, res.exc), detail={'text': text}))
        elif not res.config_error:
            viol.append(dict(sig='duplicate-accepted-through-filter:%s' % case['op'], msg='potable %s, %s: exit status %r, %d bytes written' % (' '.join(fargs), what, res.status, len(res.out_bytes or '')), detail={'text': text}))
    # one signature per cause is enough
    seen, uniq = set(), []
    for v in viol:
        if v['sig'] not in seen:
            seen.add(v['sig'])
            uniq.append(v)
    return dict(outcome='rejected:%s' % case['op'].split(':')[0] if not viol else 'violation', nontrivial=True, evals=4, violations=uniq)
