"""engine self-test module (not a property check): one case kills its worker the first time it is run (a transient death, as the out-of-memory
killer causes), one kills it every time; all other cases must still be executed, and only the persistent one is reported"""
import os

PROPERTY = 'SELFTEST'
LEVEL = 'exploration'
RULE = 'pool recovery'
ASSUMPTIONS = []
BOUNDS = {'quick': 'n/a', 'thorough': 'n/a'}
import tempfile
FLAGDIR = '/dev/shm' if os.path.isdir('/dev/shm') and os.access('/dev/shm', os.W_OK) else tempfile.gettempdir()
FLAG = os.path.join(FLAGDIR, 'verif-poolprobe-%d' % os.getppid())


def cases(tier):
    return [dict(k=k) for k in range(400)]


def run_case(case):
    if case['k'] == 137 and not os.path.exists(FLAG):
        open(FLAG, 'w').close()
        os._exit(9)
    if case['k'] == 301:
        os._exit(9)
    return dict(outcome='ok', nontrivial=True, evals=1, violations=[])
