"""C15 - [Variables] substitution equals textual substitution and changes nothing else."""
import io, itertools

from .. import routes as R
from ..readers import eam as RE

PROPERTY = 'C15'
LEVEL = 'exploration'
RULE = ('cases = 5 base models (pair with custom form + table form + [Species]; EAM; Finnis-Sinclair; ADP; Excel pair) x EVERY subset of their 6-7 '
        'liftable literals (numeric parameters, target, nr, species data, table data, a whole potential definition, a formula fragment) lifted into '
        '[Variables] x 4 variable-naming styles (neutral; names equal to [Tabulation] keys that the file sets / does not set; names equal to keys of '
        'other sections: x, y, xy, interpolation, element and pair labels, a formula signature) x {no, one, three} unused extra variables x '
        '{direct, nested: a variable defined through another variable, ${SECTION:KEY} cross references incl. one that itself contains a placeholder}; '
        'oracle: parsed lists and output bytes identical to those of the literally substituted file; non-trivial = at least one literal lifted or one extra variable')
RULE += "; structured cases: variable chains with overrides of the base variable, same-section references (also shadowing a like-named variable), override values containing placeholders and '=', a compound variable used twice in one entry, twelve sibling placeholders each defined through another, a parameter-store section reached through a nested placeholder, every value written on the line after its key, one value mixing a bare name with a cross-section reference that uses the same bare name"
ASSUMPTIONS = [
    'relational oracle: the substituted file is rendered by the generator from the same template, parsed and tabulated by the same implementation',
    'variable names avoid the characters the placeholder syntax cannot carry (":", "}", "$")',
]
BOUNDS = {'quick': '5 models x 2^6..2^7 subsets x 4 naming styles x 3 extra sets x 2 nesting modes: full product', 'thorough': 'same space (already complete)'}

# value templates: @i@ marks liftable literal i
MODELS = {
    'pair': dict(lits=['1000.0', '0.3', 'LAMMPS', '5', '-2.0', '3 2 1 0.5', 'as.lj 0.2 2.5'],
                 sections=[['Tabulation', [['target', '@2@'], ['nr', '@3@'], ['cutoff', '2.0']]],
                           ['Pair', [['O-O', 'as.buck @0@ @1@ 32.0'], ['U-O', 'cbuck 800.0 @1@'], ['U-U', 'sum(as.coul @4@ @4@, tf)'], ['Th-O', '@6@']]],
                           ['Potential-Form', [['cbuck(r,A,rho)', 'A*exp(-r/rho) + @0@/(r+@1@)^6']]],
                           ['Table-Form:tf', [['x', '0 1 2 3'], ['y', '@5@']]],
                           ['Species', [['O.charge', '@4@']]]]),
    'eam': dict(lits=['setfl', '4', '9.0', '63.0', '-1.3', '>=0 as.exp_spline 0.9 -1.0 0.02 0 0 0 0.05'],
                sections=[['Tabulation', [['target', '@0@'], ['nr', '4'], ['cutoff', '3.0'], ['nrho', '@1@'], ['cutoff_rho', '@2@']]],
                          ['Species', [['Cu.atomic_mass', '@3@']]],
                          ['EAM-Embed', [['Cu', '>=0 as.polynomial 0.2 @4@ 0.02'], ['Al', '>=0 as.polynomial 0.1 -1.0 0.01']]],
                          ['EAM-Density', [['Cu', '@5@'], ['Al', '>=0 as.exp_spline 1.1 -1.1 0.03 0 0 0 0.1']]],
                          ['Pair', [['Cu-Al', '>=0 as.morse 1.3 3.0 0.35'], ['Al-Al', '>=0 as.morse 1.2 2.0 0.3']]]]),
    'fs': dict(lits=['setfl_fs', '4', '0.2', '-1.1', '>=0 as.morse 1.2 2.0 0.3', '9.0'],
               sections=[['Tabulation', [['target', '@0@'], ['nr', '@1@'], ['cutoff', '3.0'], ['nrho', '4'], ['cutoff_rho', '@5@']]],
                         ['EAM-Embed', [['Al', '>=0 as.polynomial 0.1 -1.0 0.01'], ['Cu', '>=0 as.polynomial 0.2 -1.3 0.02']]],
                         ['EAM-Density', [['Al->Cu', '>=0 as.exp_spline @2@ @3@ 0.02 0 0 0 0'], ['Cu->Al', '>=0 as.exp_spline 0.3 @3@ 0.02 0 0 0 0'],
                                          ['Cu->Cu', '>=0 as.exp_spline 0.4 -1.1 0.02 0 0 0 0']]],
                         ['Pair', [['Al-Al', '@4@'], ['Cu-Al', '>=0 as.morse 1.3 3.0 0.35']]]]),
    'adp': dict(lits=['eam_adp', '3', '0.5', '-0.2', '0.75', '>=0 as.polynomial 0.6 -0.2 0.01'],
                sections=[['Tabulation', [['target', '@0@'], ['nr', '@1@'], ['cutoff', '3.0'], ['nrho', '3'], ['cutoff_rho', '9.0']]],
                          ['EAM-Embed', [['Al', '>=0 as.polynomial 0.1 -1.0 0.01'], ['Cu', '>=0 as.polynomial 0.2 -1.3 0.02']]],
                          ['EAM-Density', [['Al', '>=0 as.exp_spline 1.1 -1.1 0.03 0 0 0 0.1'], ['Cu', '>=0 as.exp_spline 0.9 -1.0 0.02 0 0 0 0.05']]],
                          ['Pair', [['Al-Al', '>=0 as.morse 1.2 3.0 0.3']]],
                          ['EAM-ADP-Dipole', [['Al-Al', '>=0 as.polynomial @2@ @3@ 0.01'], ['Al-Cu', '@5@']]],
                          ['EAM-ADP-Quadrupole', [['Cu-Cu', '>=0 as.morse @4@ 1.3 0.2']]]]),
    'excel': dict(lits=['excel', '4', '1.0', '-2.0', '0.5', 'as.morse 1.8 2.0 0.6'],
                  sections=[['Tabulation', [['target', '@0@'], ['nr', '@1@'], ['cutoff', '3.0']]],
                            ['Pair', [['O-O', '>=0 as.polynomial @2@ @3@ @4@'], ['U-O', '@5@']]]]),
}

STYLES = {
    'neutral': ['v0', 'v1', 'v2', 'v3', 'v4', 'v5', 'v6'],
    'tabulation-keys': ['dr', 'nr', 'cutoff', 'drho', 'nrho', 'cutoff_rho', 'target'],
    'other-keys': ['x', 'y', 'xy', 'interpolation', 'Al', 'O-O', 'O.charge'],
    'odd': ['A-B', 'A->B', 'f(r,A)', 'Cu', 'U-U', 'Th-O', 'Cu.atomic_mass'],
}
EXTRAS = {
    0: [],
    1: [['unused_dr', '0.002']],
    3: [['dr', '0.002'], ['B-B', 'as.zero'], ['interpolation', 'bogus']],
}
EXTRAS_ALT = {1: [['drho', '0.5']], 3: [['nrho', '77'], ['Ni', 'as.zero'], ['cbuck2(r,A)', 'A*r']]}


def render(model, lifted, style, extras, nested, sep=' : '):
    """lifted: set of literal indices replaced by placeholders; returns (templated text, substituted text)"""
    M = MODELS[model]
    lits = M['lits']
    # a placeholder ${NAME} is resolved in the section where it is used before [Variables] (configparser semantics), so a variable
    # must not be named like a key of a section in which it is used: names "resemble keys of OTHER sections"
    names = []
    pool = list(STYLES[style])
    for i in range(len(lits)):
        mark = '@%d@' % i
        own = set()
        for sname, entries in M['sections']:
            if any(mark in v for _k, v in entries):
                own |= set(k.replace(' ', '') for k, _v in entries)
                if nested and sname == 'Pair':
                    pass
        choice = None
        for cand in pool[i:] + pool[:i]:
            if cand not in own and cand not in names and cand != 'rcut':
                choice = cand
                break
        names.append(choice or 'v%d' % i)
    variables = []
    used = set()
    for i in sorted(lifted):
        nm = names[i]
        if nested and i == min(lifted):
            variables.append(['base_' + str(i), lits[i]])
            variables.append([nm, '${base_%d}' % i])
        else:
            variables.append([nm, lits[i]])
        used.add(nm)
    for k, v in extras:
        if k not in used:
            variables.append([k, v])
            used.add(k)

    def fill(val, templated):
        out = val
        for i, lit in enumerate(lits):
            mark = '@%d@' % i
            if mark in out:
                out = out.replace(mark, ('${%s}' % names[i]) if (templated and i in lifted) else lit)
        return out
    t_lines, s_lines = [], []
    if variables:
        t_lines.append('[Variables]')
        for k, v in variables:
            t_lines.append('%s%s%s' % (k, sep, v))
        t_lines.append('')
    for name, entries in M['sections']:
        t_lines.append('[%s]' % name)
        s_lines.append('[%s]' % name)
        for k, v in entries:
            tv, sv = fill(v, True), fill(v, False)
            t_lines.append('%s%s%s' % (k, sep, tv))
            s_lines.append('%s%s%s' % (k, sep, sv))
        t_lines.append('')
        s_lines.append('')
    t, s = '\n'.join(t_lines) + '\n', '\n'.join(s_lines) + '\n'
    if nested:
        import re
        # (1) the cutoff is itself a placeholder, (2) a parameter equal to it is written as the cross reference ${Tabulation:cutoff}
        #     (a ${SECTION:KEY} reference whose target contains a placeholder), (3) pair model: ${Species:O.charge}, whose value may be lifted too
        cut = '3.0' if ('cutoff%s3.0' % sep) in s else '2.0'
        t = t.replace('cutoff%s%s' % (sep, cut), 'cutoff%s${rcut}' % sep, 1)
        if '[Variables]' in t:
            t = t.replace('[Variables]\n', '[Variables]\nrcut%s%s\n' % (sep, cut), 1)
        else:
            t = '[Variables]\nrcut%s%s\n\n' % (sep, cut) + t
        t = t.replace('as.morse 1.3 3.0 0.35', 'as.morse 1.3 ${Tabulation:cutoff} 0.35').replace('as.morse 1.2 3.0 0.3', 'as.morse 1.2 ${Tabulation:cutoff} 0.3')
        t = re.sub(r'as\.coul (\S+) ', 'as.coul ${Species:O.charge} ', t, count=1)
    return t, s


def cases(tier):
    out = []
    k = 0
    styles = sorted(STYLES)
    for model in sorted(MODELS):
        n = len(MODELS[model]['lits'])
        for mask in range(1 << n):
            lifted = [i for i in range(n) if (mask >> i) & 1]
            combos = list(itertools.product(styles, (0, 1, 3), (False, True)))
            for style, ne, nested in combos:
                k += 1
                extras = (EXTRAS if (k % 2 or ne == 0) else EXTRAS_ALT)[ne]
                if not lifted and not extras and not nested:
                    continue
                if nested and not lifted:
                    pass
                out.append(dict(model=model, lifted=lifted, style=style, extras=extras, nested=nested, sep=(' : ', ' = ', ':')[k % 3]))
    for i in range(len(STRUCTURED)):
        out.append(dict(structured=i))
    return out


STRUCTURED = []
# (templated text, substituted text, overrides [(section, key, value)] applied to the templated file only)
_P = '[Tabulation]\ntarget : LAMMPS\nnr : 5\ncutoff : 2.0\n\n'
STRUCTURED.append(('variable-through-variable + override of the base variable',
                   '[Variables]\nrho : 0.3\nbuck_OO : as.buck 1000.0 ${rho} 32.0\nr_inner : ${r_max}\nr_max : 1.5\n\n' + _P +
                   '[Pair]\nO-O : ${buck_OO}\nU-O : as.buck 800.0 ${rho} 0.0\nU-U : >0 as.lj 0.2 2.5 >=${r_inner} as.zero\n',
                   _P + '[Pair]\nO-O : as.buck 1000.0 0.25 32.0\nU-O : as.buck 800.0 0.25 0.0\nU-U : >0 as.lj 0.2 2.5 >=1.25 as.zero\n',
                   [['Variables', 'rho', '0.25'], ['Variables', 'r_max', '1.25']]))
STRUCTURED.append(('same-section reference ${O-O} in [Pair]',
                   _P + '[Pair]\nO-O : as.buck 1000.0 0.3 32.0\nS-S : ${O-O}\nU-O : sum(${O-O}, as.lj 0.2 2.5)\n',
                   _P + '[Pair]\nO-O : as.buck 1000.0 0.3 32.0\nS-S : as.buck 1000.0 0.3 32.0\nU-O : sum(as.buck 1000.0 0.3 32.0, as.lj 0.2 2.5)\n', []))
STRUCTURED.append(('same-section reference shadows a variable of the same name',
                   '[Variables]\nO-O : as.zero\ncutoff : 9.0\n\n[Tabulation]\ntarget : LAMMPS\nnr : 5\ncutoff : 2.0\n\n[Pair]\nO-O : as.buck 1000.0 0.3 32.0\nS-S : ${O-O}\nU-O : as.polynomial ${Tabulation:cutoff} 1.0\n',
                   _P + '[Pair]\nO-O : as.buck 1000.0 0.3 32.0\nS-S : as.buck 1000.0 0.3 32.0\nU-O : as.polynomial 2.0 1.0\n', []))
STRUCTURED.append(('override / command-line value that contains a ${SECTION:KEY} placeholder and, later, an = sign',
                   '[Variables]\nrho : 0.3\nr_cut : 1.5\n\n' + _P + '[Pair]\nO-O : as.zero\nU-O : as.lj 0.2 2.5\n',
                   _P + '[Pair]\nO-O : >0 as.buck 1000.0 0.3 32.0 >=1.5 as.zero\nU-O : >0 as.lj 0.2 2.5 >=1.5 as.buck 5.0 0.3 0.0\n',
                   [['Pair', 'O-O', '>0 as.buck 1000.0 ${Variables:rho} 32.0 >=${Variables:r_cut} as.zero'],
                    ['Pair', 'U-O', '>0 as.lj 0.2 2.5 >=${Variables:r_cut} as.buck 5.0 ${Variables:rho} 0.0']]))
STRUCTURED.append(('a variable defined through another placeholder, used twice in one entry',
                   '[Variables]\nzGd : ${Species:Gd.atomic_number}\nrho : 0.3\nrho_OO : ${rho}\nA1 : 1000.0\nA2 : 1000.0\n\n[Species]\nGd.atomic_number : 64\n\n' + _P +
                   '[Pair]\nGd-Gd : as.zbl ${zGd} ${zGd}\nO-O : sum(as.buck ${A1} ${rho_OO} 0.0, as.buck ${A2} ${rho_OO} 32.0)\nGd-O : as.buck ${A1} ${rho} ${zGd}\n',
                   '[Species]\nGd.atomic_number : 64\n\n' + _P + '[Pair]\nGd-Gd : as.zbl 64 64\nO-O : sum(as.buck 1000.0 0.3 0.0, as.buck 1000.0 0.3 32.0)\nGd-O : as.buck 1000.0 0.3 64\n', []))
_T12 = ''.join('t%d : as.polynomial ${c%d} 0.%d\nc%d : %d.5\n' % (i, i, i + 1, i, i) for i in range(12))
STRUCTURED.append(('twelve sibling placeholders in one value, each defined through a further placeholder',
                   '[Variables]\n' + _T12 + '\n' + _P + '[Pair]\nO-O : sum(' + ', '.join('${t%d}' % i for i in range(12)) + ')\nU-O : as.lj 0.2 2.5\n',
                   _P + '[Pair]\nO-O : sum(' + ', '.join('as.polynomial %d.5 0.%d' % (i, i + 1) for i in range(12)) + ')\nU-O : as.lj 0.2 2.5\n', []))
STRUCTURED.append(('a parameter store section whose keys are named like [Variables] entries, reached through a nested placeholder',
                   '[Variables]\nrho : 0.25\ncutoff : 6.0\nrho_max : ${Tabulation:cutoff}\n\n[Buck]\nA : 1388.773\nrho : 0.3623\nC : 175.0\nparams : ${A} ${rho} ${C}\n\n' + _P +
                   '[Pair]\nO-O : as.buck ${Buck:params}\nU-O : as.buck 800.0 ${rho} 0.0\nU-U : >0 as.lj 0.2 ${rho_max} >=${cutoff} as.zero\n',
                   _P + '[Pair]\nO-O : as.buck 1388.773 0.3623 175.0\nU-O : as.buck 800.0 0.25 0.0\nU-U : >0 as.lj 0.2 2.0 >=6.0 as.zero\n', []))
STRUCTURED.append(('a cross-section reference whose target uses a bare name of ITS section, which in turn uses another bare name of that section',
                   '[Variables]\nscale : 1.0e3\nA : 11.0\n\n[Buck]\nscale : 2.0e3\nA : ${scale}\nparams : ${A} 0.3 32.0\n\n' + _P + '[Pair]\nO-O : as.buck ${Buck:params}\nU-O : as.buck ${scale} 0.3 ${A}\n',
                   _P + '[Pair]\nO-O : as.buck 2.0e3 0.3 32.0\nU-O : as.buck 1.0e3 0.3 11.0\n', []))
STRUCTURED.append(('ONE value holding a bare ${NAME} and a ${SECTION:KEY} reference whose target uses the same bare name of its own section (both orders, repeated)',
                   '[Variables]\nscale : 2.0\n\n[Fragments]\nscale : 5.0\ntail : as.polynomial 0.0 ${scale}\n\n' + _P +
                   '[Pair]\nO-O : sum(as.constant ${scale}, ${Fragments:tail})\nU-O : sum(${Fragments:tail}, as.constant ${scale})\nU-U : sum(as.constant ${scale}, ${Fragments:tail}, as.constant ${scale}, ${Fragments:tail})\n',
                   _P + '[Pair]\nO-O : sum(as.constant 2.0, as.polynomial 0.0 5.0)\nU-O : sum(as.polynomial 0.0 5.0, as.constant 2.0)\nU-U : sum(as.constant 2.0, as.polynomial 0.0 5.0, as.constant 2.0, as.polynomial 0.0 5.0)\n', []))
STRUCTURED.append(('the same with names that exist only in the referenced section',
                   '[Buck]\nbase : 2.0e3\nA : ${base}\nparams : ${A} 0.3 32.0\n\n' + _P + '[Pair]\nO-O : as.buck ${Buck:params}\nU-O : as.lj 0.2 2.5\n',
                   _P + '[Pair]\nO-O : as.buck 2.0e3 0.3 32.0\nU-O : as.lj 0.2 2.5\n', []))
STRUCTURED.append(('placeholders at line ends of a value continued over several lines (one parameter per line)',
                   '[Variables]\nc0 : 10\nc1 : -4\nc2 : 1\nA : 1000.0\nrho : 0.3\n\n' + _P + '[Pair]\nO-O : as.polynomial ${c0}\n      ${c1}\n      ${c2}\nU-O : as.buck ${A}\n      ${rho}\n      32.0\n',
                   _P + '[Pair]\nO-O : as.polynomial 10 -4 1\nU-O : as.buck 1000.0 0.3 32.0\n', []))
_E = '[Tabulation]\ntarget : setfl\nnr : 4\ndr : 0.5\nnrho : 4\ndrho : %s\n\n[EAM-Embed]\nAl : >=0 as.polynomial 0.1 -1.0 0.01\nCu : %s\n\n[EAM-Density]\nAl : >=0 as.exp_spline 1.1 -1.1 0.03 0 0 0 0.1\nCu : >=0 as.exp_spline 0.9 -1.0 0.02 0 0 0 0.05\n\n[Pair]\nCu-Al : >=0 as.morse 1.3 3.0 0.35\n'
_S = '[Species]\nAl.lattice_type%sbcc\nAl.atomic_mass%s30.0\nCu.lattice_constant%s3.61\n\n'
STRUCTURED.append(('every value of [Tabulation] / [Species] / [EAM-*] starts on the line after its key (no placeholders at all)',
                   _S % ((' :\n    ',) * 3) + (_E % ('0.5', '>=0 as.polynomial 0.2 -1.3 0.02')).replace(' : ', ' :\n    '),
                   _S % ((' : ',) * 3) + _E % ('0.5', '>=0 as.polynomial 0.2 -1.3 0.02'), []))
STRUCTURED.append(('same-section references in [Tabulation] (drho : ${dr}) and [EAM-Embed] (Cu : ${Al})',
                   _E % ('${dr}', '${Al}'), _E % ('0.5', '>=0 as.polynomial 0.1 -1.0 0.01'), []))
STRUCTURED.append(('same-section references with like-named variables present',
                   '[Variables]\ndr : 0.002\nAl : as.zero\n\n' + _E % ('${dr}', '${Al}'), _E % ('0.5', '>=0 as.polynomial 0.1 -1.0 0.01'), []))

# a variable nothing refers to is substituted nowhere: its own value need not be resolvable in this file (a library of definitions shared by several models)
STRUCTURED.append(('an unreferenced variable whose own value refers to a section this file does not have',
                   '[Variables]\nrho : 0.3\nGd_mass : ${Species:Gd.atomic_mass}\nunused_chain : ${Gd_mass} ${nosuch}\n\n' + _P + '[Pair]\nO-O : as.buck 1000.0 ${rho} 32.0\nU-O : as.lj 0.2 2.5\n',
                   _P + '[Pair]\nO-O : as.buck 1000.0 0.3 32.0\nU-O : as.lj 0.2 2.5\n', []))
# blanks inside the braces: keys are blank-insensitive and so are the names in placeholders
STRUCTURED.append(('placeholders spelt with blanks inside the braces',
                   '[Variables]\nrho : 0.3\nA : 1000.0\n\n[Species]\nGd.charge : 3.0\n\n' + _P + '[Pair]\nO-O : as.buck ${ A } ${rho } 32.0\nU-O : as.buck ${Species: Gd.charge} ${ rho} 0.0\nGd-O : cb ${Variables: A} 0.35\n\n[Potential-Form]\ncb(r, A, rho) : A*exp(-r/rho)\n',
                   '[Species]\nGd.charge : 3.0\n\n' + _P + '[Pair]\nO-O : as.buck 1000.0 0.3 32.0\nU-O : as.buck 3.0 0.3 0.0\nGd-O : cb 1000.0 0.35\n\n[Potential-Form]\ncb(r, A, rho) : A*exp(-r/rho)\n', []))
STRUCTURED.append(('a placeholder naming a key that is written with blanks (a formula signature, a density pair)',
                   '[Variables]\nsame : ${Potential-Form:cb(r, A, rho)}\n\n' + _P + '[Pair]\nO-O : cb 1000.0 0.3\nU-O : cb2 900.0 0.3\n\n[Potential-Form]\ncb(r, A, rho) : A*exp(-r/rho)\ncb2(r, A, rho) : ${same} + 1/r\n',
                   _P + '[Pair]\nO-O : cb 1000.0 0.3\nU-O : cb2 900.0 0.3\n\n[Potential-Form]\ncb(r, A, rho) : A*exp(-r/rho)\ncb2(r, A, rho) : A*exp(-r/rho) + 1/r\n', []))


def observe(text, binary, overrides=()):
    from atsim.potentials.config import ConfigParser, Configuration
    from atsim.potentials.config._common import ConfigurationException
    obs = {}
    try:
        from atsim.potentials.config import ConfigParserOverrideTuple as T
        cp = ConfigParser(io.StringIO(text), overrides=[T(*o) for o in overrides])
    except ConfigurationException as e:
        return {'parse': ('config-error', type(e).__name__, str(e)[:200])}
    for a in ('pair', 'potential_form', 'table_form', 'species', 'eam_embed', 'eam_density', 'eam_density_fs'):
        try:
            obs[a] = getattr(cp, a)
        except ConfigurationException as e:
            obs[a] = ('config-error', type(e).__name__)
        except Exception as e:  # noqa
            obs[a] = ('exception', type(e).__name__)
    try:
        t = cp.tabulation
        obs['tabulation'] = (t.target, t.nr, t.cutoff, t.nrho, t.cutoff_rho)
    except ConfigurationException as e:
        obs['tabulation'] = ('config-error', type(e).__name__, str(e)[:200])
    try:
        data = R.write_tabulation(Configuration().read_from_parser(cp))
        obs['output'] = RE.read_xlsx(data) if binary else data
    except ConfigurationException as e:
        obs['output'] = ('config-error', str(e)[:200])
    except Exception as e:  # noqa
        obs['output'] = ('exception', type(e).__name__, str(e)[:200])
    return obs


def run_structured(case):
    name, t, s_, ov = STRUCTURED[case['structured']]
    want = observe(s_, False)
    got = observe(t, False, ov)
    viol = []
    if 'parse' in want or isinstance(want.get('output'), tuple):
        viol.append(dict(sig='harness:substituted-file-rejected', msg='%s: the substituted file is not accepted: %r' % (name, want.get('parse') or want.get('output')), detail={}))
    else:
        for k in want:
            if got.get(k) != want[k]:
                viol.append(dict(sig='differs-from-substituted-file:%s' % k, msg='%s: %s = %s ; the substituted file gives %s' % (name, k, str(got.get(k, got.get('parse')))[:300], str(want[k])[:300]),
                                 detail={'templated': t, 'substituted': s_, 'overrides': ov}))
                break
    if not viol:
        args = []
        for o in ov:
            args += ['-e', '%s:%s=%s' % tuple(o)]
        a, b = R.potable(t, args=args), R.potable(s_)
        if (a.status, type(a.exc).__name__, a.out_bytes) != (b.status, type(b.exc).__name__, b.out_bytes):
            viol.append(dict(sig='potable-differs-from-substituted-file', msg='%s: potable %s on the templated file: status %r %s; substituted file: status %r' % (name, ' '.join(args), a.status, a.exc or a.stderr[-200:], b.status), detail={}))
    return dict(outcome='ok:structured' if not viol else 'violation', nontrivial=True, evals=1, violations=viol)


def run_case(case):
    if 'structured' in case:
        return run_structured(case)
    t, s = render(case['model'], set(case['lifted']), case['style'], case['extras'], case['nested'], case['sep'])
    binary = case['model'] == 'excel'
    want = observe(s, binary)
    got = observe(t, binary)
    viol = []
    if 'parse' in want or isinstance(want.get('output'), tuple):
        viol.append(dict(sig='harness:substituted-file-rejected', msg='the substituted file itself is not accepted: %r\n%s' % (want.get('parse') or want.get('output'), s), detail={}))
    else:
        for k in want:
            if got.get(k) != want[k]:
                viol.append(dict(sig='differs-from-substituted-file:%s' % k, msg='model %s, lifted %r as %s, extras %r, nested %s: %s = %s ; the substituted file gives %s'
                                 % (case['model'], case['lifted'], case['style'], case['extras'], case['nested'], k, str(got.get(k, got.get('parse')))[:300], str(want[k])[:300]),
                                 detail={'templated': t, 'substituted': s}))
                break
    # potable route for the same pair of files
    if not viol and (len(case['lifted']) + len(case['extras'])) % 3 == 0:
        a = R.potable(t, binary=binary)
        b = R.potable(s, binary=binary)
        oa = (a.status, type(a.exc).__name__, RE.read_xlsx(a.out_bytes) if (binary and a.out_bytes) else a.out_bytes)
        ob = (b.status, type(b.exc).__name__, RE.read_xlsx(b.out_bytes) if (binary and b.out_bytes) else b.out_bytes)
        if oa != ob:
            viol.append(dict(sig='potable-differs-from-substituted-file', msg='potable on the templated file: %s; on the substituted file: %s' % (str(oa)[:300], str(ob)[:300]),
                             detail={'templated': t, 'substituted': s}))
    return dict(outcome='ok:%s' % case['model'] if not viol else 'violation', nontrivial=bool(case['lifted'] or case['extras']), evals=1, violations=viol)
