"""C07 - offered first/second derivatives are the true derivatives of the energy.

Enumerates expression trees over leaves (built-in forms, Python callables without/with deriv/deriv2, a table form,
a custom formula) and combinators (plus/product/pow through the Python API; sum()/product()/pow()/trans()/spline()/
multi-range/buck4 through potable text) and compares .deriv/.deriv2 with second-order AD jets of the reference model.
"""
import itertools, math

from .. import models as M, routes as R, engine
from ..refmodel import expr as X
from ..refmodel.expr import form, D, mod
from ..refmodel.jets import Jet

PROPERTY = 'C07'
LEVEL = 'exploration'
RULE = ('cases = every expression tree of depth <= 2 (thorough: 3 with a reduced leaf set) over 22 leaves x {plus, product, pow} built '
        'through the Python API, and over potable text {sum, product, pow, trans, spline, multi-range, buck4, table, custom formula}; '
        'each evaluated on a 14-point separation lattice in (0, 30] (+ r = 0 where the energy itself evaluates there); oracle: '
        'hasattr(deriv/deriv2) => equals the reference jets; "fallback for that component only" decided behaviourally with '
        'counting leaves; non-trivial = tree with >= 1 combinator or a leaf with non-zero curvature')
RULE += "; every built-in form over the C06 parameter lattice at leaf level; shared sub-expressions (a composed potential used as an operand after evaluation); powers whose base is exactly zero on the probe; (f^2)^0.5-style powers of powers; multi-range potentials with a default_value plateau; the public helpers gradient() / deriv() / num_deriv() with the caller's step h; pow() with three / four operands; powers (any positive constant exponent) of a base that is identically zero over an interval; value / deriv / deriv2 of 12 potential functions called with keywords in other orders, through functools.partial"
ASSUMPTIONS = [
    'reference jets (forward-mode AD of the documented formulas) are exact derivatives',
    'tolerances: analytic 1e-9 x abs-propagated scale; one numerical level 50*eps*scale/h; numerical derivative of a numerical derivative 200*eps*scale/h^2 (h = 1e-6, documented fallback)',
    'points where the energy itself cannot be evaluated, where a pow() base is within 1e-6 of zero, or within 1e-3 of a range boundary are skipped and counted',
    'lattices, not all reals; depth <= 3',
]
BOUNDS = {'quick': 'API: all depth-1 trees (3 x 22^2) + depth-2 trees over 6 leaves; potable: ~300 definitions; 14 separations',
          'thorough': 'API: depth-2 trees over 9 leaves, depth-3 trees (balanced and both chains) over 5-6 leaves; potable nesting depth 3'}

RS = [0.05, 0.2, 0.45, 0.7, 0.95, 1.3, 1.75, 2.2, 2.9, 3.7, 5.3, 8.1, 13.0, 30.0]


def leaves():
    L = [
        ('bornmayer', form('bornmayer', 850.0, 0.35), 2), ('buck', form('buck', 1000.0, 0.3, 32.0), 2),
        ('constant', form('constant', 2.5), 2), ('coul', form('coul', 2.4, -1.2), 2),
        ('exponential_frac', form('exponential', 3.0, -2.5), 2), ('exponential_int', form('exponential', 0.5, 2), 2),
        ('exponential_lin', form('exponential', 0.75, 1), 2), ('exponential_const', form('exponential', 1.25, 0), 2),
        ('exp_spline', form('exp_spline', 0.1, -0.2, 0.05, 0.01, -0.002, 0.0001, 0.3), 2), ('hbnd', form('hbnd', 120.0, 35.0), 2),
        ('lj', form('lj', 0.2, 2.5), 2), ('morse', form('morse', 1.8, 2.0, 0.6), 2),
        ('polynomial', form('polynomial', 1.0, -2.0, 0.5, 0.1), 2), ('poly_neg', form('polynomial', -1.0, 0.1), 2),
        ('sqrt', form('sqrt', 2.5), 2), ('tang_toennies', form('tang_toennies', 41.96, 2.523, 1.461, 14.11, 183.6), 2),
        ('zbl', form('zbl', 14, 8), 2), ('zero', form('zero'), 2), ('const_int', form('constant', 2), 2),
        ('buck4', form('buck4', 1388.773, 0.3623, 175.0, 1.2, 2.1, 2.6), 2),
        ('py_plain', {'py': 'py_plain'}, 0), ('py_deriv', {'py': 'py_deriv'}, 1), ('py_both', {'py': 'py_both'}, 2),
        ('table', {'table': 'tf'}, 2),
        ('poly_root', form('polynomial', -0.7, 1.0), 2),      # exactly 0.0 at the lattice point r = 0.7, slope 1
    ]
    return L


def level(it):
    """analytic level the implementation is documented to have for this node: 0 none, 1 deriv, 2 deriv+deriv2"""
    if 'py' in it:
        return {'py_plain': 0, 'py_deriv': 1, 'py_both': 2}[it['py']]
    if 'custom' in it:
        return 0
    if 'form' in it or 'table' in it:
        return 2
    if it['mod'] == 'spline':
        return max(level(it['start']), level(it['end']), 2)
    return max(dlevel(a) for a in it['args'])


def dlevel(d):
    return max(level(it) for _m, _s, it in d['ranges'])


def min_level(d):
    def ml(it):
        if 'mod' in it and it['mod'] != 'spline':
            return min(min_level(a) for a in it['args'])
        if 'mod' in it:
            return min(ml(it['start']), ml(it['end']))
        return level(it)
    return min(ml(it) for _m, _s, it in d['ranges'])


def cases(tier):
    out = []
    L = leaves()
    # ---- every built-in form over the parameter lattice of C06: deriv/deriv2 of the potential functions themselves
    from . import C06
    P = C06.lattice(tier)
    for name in sorted(P):
        if name == 'buck4':
            continue
        vecs = P[name]
        for i in range(0, len(vecs), 40):
            out.append(dict(route='leaf', form=name, params=[list(v) for v in vecs[i:i + 40]]))
    # ---- Python API trees
    for c in ('sum', 'product', 'pow'):
        for (na, a, _la), (nb, b, _lb) in itertools.product(L, L):
            out.append(dict(route='api', d=D(mod(c, a, b))))
    for n, it, _l in L:
        out.append(dict(route='api', d=D(it)))
    sub = [x for x in L if x[0] in (('buck', 'morse', 'polynomial', 'py_plain', 'py_deriv', 'const_int') if tier == 'quick' else
                                    ('buck', 'morse', 'polynomial', 'py_plain', 'py_deriv', 'const_int', 'table', 'exponential_int', 'poly_neg'))]
    for c1 in ('sum', 'product', 'pow'):
        for c2 in ('sum', 'product', 'pow'):
            for (_na, a, _x), (_nb, b, _y), (_nc, c, _z) in itertools.product(sub, sub, sub):
                out.append(dict(route='api', d=D(mod(c1, mod(c2, a, b), c))))
                out.append(dict(route='api', d=D(mod(c1, a, mod(c2, b, c)))))
    if tier != 'quick':
        s4 = [x for x in L if x[0] in ('morse', 'polynomial', 'py_plain', 'const_int', 'py_deriv', 'table')]
        for c1, c2, c3 in itertools.product(('sum', 'product', 'pow'), repeat=3):
            for a, b, c, d in itertools.product(s4, repeat=4):
                out.append(dict(route='api', d=D(mod(c1, mod(c2, a[1], b[1]), mod(c3, c[1], d[1])))))
        # left- and right-leaning chains of depth 3 over the same six leaves
        for c1, c2, c3 in itertools.product(('sum', 'product', 'pow'), repeat=3):
            for a, b, c, d in itertools.product(s4[:5], repeat=4):
                out.append(dict(route='api', d=D(mod(c1, mod(c2, mod(c3, a[1], b[1]), c[1]), d[1]))))
                out.append(dict(route='api', d=D(mod(c1, a[1], mod(c2, b[1], mod(c3, c[1], d[1]))))))
    # powers of powers, composed directly: the magnitude idiom (f^2)^0.5 with f changing sign, (f^2)^1.5, (f^4)^0.25
    Ld = dict((n_, it_) for n_, it_, _l in L)
    for fname in ('poly_neg', 'polynomial', 'morse', 'py_deriv'):
        for e1, e2 in ((2, 0.5), (2, 1.5), (4, 0.25), (2, 2), (3, 2), (2.0, 0.5)):
            t = mod('pow', mod('pow', Ld[fname], form('constant', e1)), form('constant', e2))
            out.append(dict(route='api', d=D(t)))
            out.append(dict(route='api', d=D(mod('sum', t, Ld['morse']))))
            out.append(dict(route='api', d=D(mod('product', Ld['const_int'], t))))
    # shared sub-expressions: x = c1(a, b) is evaluated, then used as an operand of y = c2(x, c) / c2(c, x); x must be unchanged and
    # y must equal the same tree built from fresh pieces
    sh = [x for x in L if x[0] in ('buck', 'morse', 'polynomial', 'py_plain', 'py_deriv', 'const_int', 'poly_root')]
    for c1, c2 in itertools.product(('sum', 'product', 'pow'), repeat=2):
        for (_na, a, _x), (_nb, b, _y), (_nc, c, _z) in itertools.product(sh, sh, sh):
            for side in (0, 1):
                out.append(dict(route='shared', c1=c1, c2=c2, a=a, b=b, c=c, side=side))
    # the public helpers gradient() / deriv() / num_deriv() with the caller's step
    for fname in ('py_plain', 'py_deriv', 'py_both', 'morse', 'buck', 'table'):
        for h in (None, 1e-3, 1e-5, 1e-8):
            out.append(dict(route='util', f=fname, h=h))
    # as.zbl keeps its screening coefficients as class attributes: a subclass / instance with other coefficients (Moliere, Kr-C) must still
    # offer the derivatives of ITS energy; and the shared zbl object has no memory of the pair it was last evaluated for
    for coeffs in ('moliere', 'krc', 'default'):
        for how in ('subclass', 'instance-attributes'):
            out.append(dict(route='zbl_coeffs', coeffs=coeffs, how=how))
    out.append(dict(route='zbl_interleaved'))
    # the derivative methods of the potential functions called with keyword arguments (documented parameter names) in other orders
    for fname in ('buck', 'bornmayer', 'morse', 'lj', 'coul', 'hbnd', 'exponential', 'zbl', 'sqrt', 'constant', 'exp_spline', 'tang_toennies'):
        out.append(dict(route='kwderiv', f=fname))
    # a power with a constant exponent >= 1 (>= 2 for the curvature) is differentiable where its base is exactly zero
    for base in ('poly_root', 'root*morse', 'root^2'):
        for e in (1, 2, 3, 4, 2.0, 2.5, 3.5, 1.0, 1.5):
            for wrap in ('none', 'sum', 'product'):
                for route in ('api', 'cfg'):
                    out.append(dict(route='pow_zero', base=base, e=e, wrap=wrap, via=route))
    # ... and where its base is identically zero over an interval (beyond the end of a range, outside table data) a power with ANY positive constant
    # exponent is the zero function there: value, slope and curvature are 0
    for base in ('range-then-zero', 'zero', 'table-beyond-data', 'product-with-zero'):
        for e in (0.25, 0.5, 0.75, 1, 1.5, 2, 3, 'r-dependent', 'r-dependent-steep'):
            for wrap in ('none', 'sum', 'product'):
                for route in ('api', 'cfg'):
                    out.append(dict(route='pow_flat_zero', base=base, e=e, wrap=wrap, via=route))
    # multi-range potentials with a non-zero default value (a plateau below the first range: its derivatives are zero)
    for comb in ('none', 'sum', 'product'):
        for marker in ('>', '>='):
            for other in ('morse', 'polynomial', 'py_plain'):
                out.append(dict(route='mr_default', comb=comb, marker=marker, other=other))
    # multi-range through the API
    for (na, a, _), (nb, b, _2) in itertools.product(sub, sub):
        out.append(dict(route='api', d=D(('>', 0.0, a), ('>=', 1.1, b))))
        out.append(dict(route='api', d=D(('>=', 0.0, mod('sum', a, b)), ('>', 2.05, b), ('>', 4.4, a))))
    # ---- potable trees
    PL = [x for x in L if 'py' not in x[1]] + [('custom', {"custom": "mix", "params": [700.0, 0.4]}, 0)]
    for n, it, _l in PL:
        out.append(dict(route='cfg', d=D(it)))
        out.append(dict(route='cfg', d=D(mod('trans', it, x=0.75))))
        out.append(dict(route='cfg', d=D(mod('trans', it, x=-0.5))))
        out.append(dict(route='cfg', d=D(('>=', 0.0, it), ('>', 1.6, form('lj', 0.2, 2.5)))))
    psub = [x for x in PL if x[0] in ('buck', 'morse', 'polynomial', 'custom', 'table', 'const_int', 'zbl', 'poly_neg')]
    for c in ('sum', 'product', 'pow'):
        for (na, a, _), (nb, b, _2) in itertools.product(psub, psub):
            out.append(dict(route='cfg', d=D(mod(c, a, b))))
            out.append(dict(route='cfg', d=D(mod('trans', D(mod(c, a, b)), x=0.3))))
            out.append(dict(route='cfg', d=D(mod(c, mod('trans', a, x=0.3), b))))
        for a, b, c3 in itertools.product(psub[:4], repeat=3):
            out.append(dict(route='cfg', d=D(mod(c, a[1], b[1], c3[1]))) if c != 'pow' else dict(route='cfg', d=D(mod('sum', mod('pow', a[1], b[1]), c3[1]))))
    # pow() with three and four operands (a left fold), analytic and formula operands
    pb = [form('polynomial', 1.5, 0.5), form('morse', 1.8, 2.0, 0.6), {"custom": "ms", "params": [650.0, 0.35]}]
    pe = [form('constant', 1.5), form('constant', 2), form('polynomial', 0.25, 0.05), {"custom": "br", "params": [0.5]}]
    for b0 in pb:
        for n in (2, 3):
            for es in itertools.product(pe, repeat=n):
                out.append(dict(route='cfg', d=D(mod('pow', b0, *es))))
    ends = [form('zbl', 14, 8), form('bornmayer', 850.0, 0.35), form('buck', 1000.0, 0.3, 32.0), form('morse', 1.8, 2.0, 0.6), form('polynomial', 3.0, -1.0, 0.2)]
    for s, e in itertools.product(ends, ends):
        for kind, rmin in (('exp_spline', None), ('buck4_spline', 1.1)):
            sp = {"mod": "spline", "start": s, "detach": ['>', 0.8], "kind": kind, "rmin": rmin, "attach": ['>=', 1.4], "end": e, "first": None}
            out.append(dict(route='cfg', d=D(sp)))
            out.append(dict(route='cfg', d=D(mod('sum', D(sp), form('coul', 2.4, -1.2)))))
    return out


class Skip(Exception):
    """the point is outside the statement (not differentiable / ill-conditioned / energy undefined)"""


CE = 60.0    # safety factor on the rounding-error model of a finite difference


def analyze(d, r, env):
    """-> (reference Jet, abs-propagated scale Jet S, e1, e2, level) for definition d at r.
    e1 / e2 bound the error of the first / second derivative the implementation can legitimately have because a
    component without analytic derivative is differentiated numerically (h = 1e-6)."""
    sel = X.select_range(d['ranges'], r)
    if sel is None:
        return Jet(0.0), Jet(0.0), 0.0, 0.0, 2
    return _an_item(sel[2], r, env)


def _leaf_err(S, lvl):
    if lvl >= 2:
        return 0.0, 0.0
    if lvl == 1:
        return 0.0, CE * M.EPS * S.d1 / M.H + 1e-7 * S.d2
    return CE * M.EPS * S.v / M.H + 1e-7 * S.d1, 4 * CE * M.EPS * S.v / (M.H * M.H) + CE * M.EPS * S.d1 / M.H + 1e-5 * S.d2


def _an_item(it, r, env):
    if 'mod' not in it or it['mod'] == 'spline':
        if it.get('form') == 'tang_toennies' and r < 0.8:
            raise Skip()
        j = X.ev_item(it, r, env)
        S = Jet(abs(j.v), abs(j.d1), abs(j.d2))
        lvl = level(it)
        e1, e2 = _leaf_err(S, lvl)
        return j, S, e1, e2, lvl
    m = it['mod']
    if m == 'trans':
        return analyze(it['args'][0], r + it['x'], env)
    if m == 'pow' and len(it['args']) > 2:          # ((a**b)**c)**d
        return _an_item({'mod': 'pow', 'args': [X.D({'mod': 'pow', 'args': it['args'][:-1]}), it['args'][-1]]}, r, env)
    parts = [analyze(a, r, env) for a in it['args']]
    lvl = max(p[4] for p in parts)
    if m == 'sum':
        j, S, e1, e2 = Jet(0.0), Jet(0.0), 0.0, 0.0
        for (pj, pS, pe1, pe2, _l) in parts:
            j, S, e1, e2 = j + pj, S + pS, e1 + pe1, e2 + pe2
    elif m == 'product':
        j, S, e1, e2 = parts[0][:4]
        for (bj, bS, be1, be2, _l) in parts[1:]:
            ne1 = e1 * bS.v + S.v * be1
            ne2 = e2 * bS.v + 2 * (e1 * bS.d1 + S.d1 * be1 + e1 * be1) + S.v * be2
            j, S, e1, e2 = j * bj, S * bS, ne1, ne2
    else:
        (aj, aS, ae1, ae2, _la), (bj, bS, be1, be2, _lb) = parts
        if abs(aj.v) < 1e-6:
            raise Skip()
        if aj.v < 0 and not (bj.is_const() and float(bj.v).is_integer() and be1 == 0.0 and be2 == 0.0):
            raise Skip()
        j = aj ** bj
        p = abs(j.v)
        la = abs(math.log(abs(aj.v)))
        ia = 1.0 / abs(aj.v)
        g = bS.d1 * la + bS.v * aS.d1 * ia
        S = Jet(p, p * g, p * (g * g + bS.d2 * la + 2 * bS.d1 * aS.d1 * ia + bS.v * (aS.d2 * ia + aS.d1 * aS.d1 * ia * ia)))
        eg = be1 * la + bS.v * ae1 * ia
        e1 = p * eg
        e2 = p * (2 * g * eg + eg * eg + be2 * la + 2 * (be1 * aS.d1 + bS.d1 * ae1 + be1 * ae1) * ia
                  + bS.v * (ae2 * ia + (2 * aS.d1 * ae1 + ae1 * ae1) * ia * ia))
    # a composite that does not itself offer deriv2 (deriv) is differentiated numerically by whatever uses it
    if lvl < 2:
        e2 = max(e2, 2 * e1 / M.H + CE * M.EPS * S.d1 / M.H + 1e-7 * S.d2)
    if lvl < 1:
        e1 = max(e1, CE * M.EPS * S.v / M.H + 1e-7 * S.d1)
        e2 = max(e2, 4 * CE * M.EPS * S.v / (M.H * M.H) + 1e-5 * S.d2)
    return j, S, e1, e2, lvl


def build(case):
    d = case['d']
    env = M.env()
    if case['route'] == 'api':
        return R.api_defn(d), R.apiize(d)
    ini = M.pair_ini('LAMMPS', [('A', 'B', d)], 5.0, 6)
    tab = R.config_read(ini)
    return tab.potentials[0].potentialFunction, d


def run_leaf(case):
    import atsim.potentials.potentialfunctions as pf
    from ..refmodel import forms as F
    name = case['form']
    fn = getattr(pf, name)
    ref = F.FORMS[name]
    viol, evals, skipped = [], 0, 0
    for p in case['params']:
        for r in RS + [0.0]:
            if name == 'tang_toennies' and r < 0.8:
                continue
            try:
                j = ref(Jet.var(r), *p)
            except (ZeroDivisionError, ValueError, OverflowError, TypeError):
                skipped += 1
                continue
            try:
                fn(r, *p)
            except (ZeroDivisionError, ValueError, OverflowError):
                skipped += 1     # energy itself undefined here
                continue
            from . import C06
            base = max(abs(j.v), C06.scale(name, r, tuple(p)) if r > 0 else abs(j.v))
            if not all(math.isfinite(x) and abs(x) < 1e200 for x in (j.v, j.d1, j.d2, base)):
                skipped += 1
                continue
            for which, want, sc in (('deriv', j.d1, abs(j.d1) + base * (1 + (12.0 / r if r > 0 else 0))),
                                    ('deriv2', j.d2, abs(j.d2) + base * (1 + (160.0 / (r * r) if r > 0 else 0)))):
                evals += 1
                try:
                    got = getattr(fn, which)(r, *p)
                except (ZeroDivisionError, ValueError, OverflowError) as e:
                    viol.append(dict(sig='%s-raises:%s' % (which, engine.exc_sig(e).split(':', 1)[1]),
                                     msg='as.%s%r: %s(%r) raised %s: %s although the energy is defined there' % (name, tuple(p), which, r, type(e).__name__, e), detail={}))
                    break
                if not abs(got - want) <= 1e-10 * sc + 1e-300:
                    viol.append(dict(sig='%s-wrong:%s' % (which, name), msg='as.%s%r: %s(%r) = %r, true derivative %r' % (name, tuple(p), which, r, got, want), detail={}))
                    break
            else:
                continue
            break
        if viol:
            break
    return dict(outcome='ok:leaf:%s' % name if not viol else 'violation', nontrivial=True, evals=evals, violations=viol, skipped=skipped)


def run_mr_default(case):
    import atsim.potentials as ap
    from atsim.potentials import create_Multi_Range_Potential_Form, Multi_Range_Defn
    L = dict((n, it) for n, it, _l in leaves())
    env = M.env()
    start, dv = 1.0, 25.0
    inner = form('buck', 1000.0, 0.3, 32.0)
    obj = create_Multi_Range_Potential_Form(Multi_Range_Defn(case['marker'], start, R.api_item(inner)), default_value=dv)
    other = L[case['other']]
    f = obj if case['comb'] == 'none' else {'sum': ap.plus, 'product': ap.product}[case['comb']](obj, R.api_item(other))
    viol, evals = [], 0
    for r in (0.2, 0.7, 0.999, 1.5, 3.0):
        a = Jet(dv) if r < start else X.ev_item(inner, r, env)
        b = X.ev_item(other, r, env)
        ref = a if case['comb'] == 'none' else (a + b if case['comb'] == 'sum' else a * b)
        sc = abs(ref.v) + abs(ref.d1) + abs(ref.d2) + abs(a.v * b.d1) + abs(a.v * b.d2) + 1.0
        tol1 = 1e-9 * sc + (1e-6 * sc if case['other'] == 'py_plain' else 0.0)
        tol2 = 1e-9 * sc + (5e-2 * sc if case['other'] == 'py_plain' else 0.0)
        for which, want, tol in (('__call__', ref.v, 1e-9 * sc), ('deriv', ref.d1, tol1), ('deriv2', ref.d2, tol2)):
            if which != '__call__' and not hasattr(f, which):
                continue
            evals += 1
            got = f(r) if which == '__call__' else getattr(f, which)(r)
            if not abs(got - want) <= tol:
                viol.append(dict(sig='%s-wrong:default-value-plateau' % which, msg='multi-range potential with default_value=%r (range %s%r), combined by %s with %s: %s(%r) = %r, true value %r'
                                 % (dv, case['marker'], start, case['comb'], case['other'], which, r, got, want), detail={}))
                break
        if viol:
            break
    return dict(outcome='ok:mr_default' if not viol else 'violation', nontrivial=True, evals=evals, violations=viol)


def observe(f, rs):
    out = []
    for r in rs:
        for which in ('__call__', 'deriv', 'deriv2'):
            if which != '__call__' and not hasattr(f, which):
                out.append((r, which, 'absent'))
                continue
            try:
                v = f(r) if which == '__call__' else getattr(f, which)(r)
                out.append((r, which, repr(v)))
            except (ZeroDivisionError, ValueError, OverflowError, TypeError) as e:
                out.append((r, which, type(e).__name__))
    return out


def run_shared(case):
    import atsim.potentials as ap
    comb = {'sum': ap.plus, 'product': ap.product, 'pow': ap.pow}
    rs = (0.7, 1.3, 2.9)
    x = comb[case['c1']](R.api_item(case['a']), R.api_item(case['b']))
    before = observe(x, rs)
    c = R.api_item(case['c'])
    y = comb[case['c2']](x, c) if case['side'] == 0 else comb[case['c2']](c, x)
    oy = observe(y, rs)
    after = observe(x, rs)
    x2 = comb[case['c1']](R.api_item(case['a']), R.api_item(case['b']))
    c2 = R.api_item(case['c'])
    y2 = comb[case['c2']](x2, c2) if case['side'] == 0 else comb[case['c2']](c2, x2)
    viol = []
    what = '%s(%s, %s)' % (case['c1'], X.render_item(case['a']) if 'form' in case['a'] else case['a'], X.render_item(case['b']) if 'form' in case['b'] else case['b'])
    for (r, w, v0), (_r, _w, v1) in zip(before, after):
        if v0 != v1:
            viol.append(dict(sig='operand-changed-by-composition:%s' % w, msg='x = %s: x.%s(%r) was %s, after building %s with x as operand %d it is %s'
                             % (what, w, r, v0, case['c2'], case['side'], v1), detail={}))
            break
    for (r, w, v0), (_r, _w, v1) in zip(oy, observe(y2, rs)):
        if v0 != v1 and not viol:
            viol.append(dict(sig='composition-of-used-operand-differs:%s' % w, msg='y = %s(x, c) with x = %s already evaluated: y.%s(%r) = %s, the same tree from fresh pieces gives %s'
                             % (case['c2'], what, w, r, v0, v1), detail={}))
            break
    return dict(outcome='ok:shared' if not viol else 'violation', nontrivial=True, evals=len(before) * 4, violations=viol)


def run_pow_zero(case):
    L = dict((n, it) for n, it, _l in leaves())
    root, morse = L['poly_root'], L['morse']
    base = {'poly_root': root, 'root*morse': mod('product', root, morse), 'root^2': mod('pow', root, form('constant', 2))}[case['base']]
    e = case['e']
    if case['base'] == 'root^2' and e < 1.0:
        return dict(outcome='skip', nontrivial=False, evals=0, violations=[])
    t = mod('pow', base, form('constant', e))
    d = D(t) if case['wrap'] == 'none' else D(mod(case['wrap'], t, morse))
    env = M.env()
    if case['via'] == 'api':
        f = R.api_defn(d)
    else:
        f = R.config_read(M.pair_ini('LAMMPS', [('A', 'B', d)], 5.0, 6)).potentials[0].potentialFunction
    r = 0.7
    a = X.ev_item(base, r, env)            # a.v == 0 exactly
    b = float(e)
    if a.v != 0.0:
        return dict(outcome='harness:base-not-zero', nontrivial=False, evals=0, violations=[dict(sig='harness:base-not-zero', msg=repr(a), detail={})])
    # order of the zero of the base at r: 1 for the root itself and root*morse (a ~ c x), 2 for root^2 (a = x^2, a' = 0)
    v = 0.0
    if a.d1 != 0.0:
        d1 = a.d1 if b == 1 else 0.0
        d2 = a.d2 if b == 1 else (2 * a.d1 * a.d1 if b == 2 else (0.0 if b > 2 else None))      # 1 < b < 2: infinite curvature
    else:
        d1 = 0.0
        d2 = a.d2 if b == 1 else 0.0       # (x^2)^b = |x|^(2b), 2b >= 3
    pj = Jet(v, d1, d2 if d2 is not None else 0.0)
    mj = X.ev_item(morse, r, env)
    tot = pj if case['wrap'] == 'none' else (pj + mj if case['wrap'] == 'sum' else pj * mj)
    viol, n = [], 0
    for which, want in (('__call__', tot.v), ('deriv', tot.d1), ('deriv2', tot.d2)):
        if which == 'deriv2' and d2 is None:
            continue
        if which != '__call__' and not hasattr(f, which):
            viol.append(dict(sig='%s-not-offered' % which, msg='%s: .%s is not offered' % (X.render_defn(d), which), detail={}))
            break
        n += 1
        try:
            got = f(r) if which == '__call__' else getattr(f, which)(r)
        except (ZeroDivisionError, ValueError, OverflowError) as ex:
            viol.append(dict(sig='%s-raises-at-zero-of-pow-base:%s' % (which, type(ex).__name__), msg='%s: %s(%r) raised %s: %s; the base is exactly zero there and the true value is %r'
                             % (X.render_defn(d), which, r, type(ex).__name__, ex, want), detail={}))
            break
        if not abs(got - want) <= 1e-9 * (abs(want) + abs(mj.v) + abs(mj.d1) + abs(mj.d2) + 1.0):
            viol.append(dict(sig='%s-wrong-at-zero-of-pow-base' % which, msg='%s: %s(%r) = %r, true value %r' % (X.render_defn(d), which, r, got, want), detail={}))
            break
    return dict(outcome='ok:pow_zero' if not viol else 'violation', nontrivial=True, evals=n, violations=viol)


def run_pow_flat_zero(case):
    L = dict((n, it) for n, it, _l in leaves())
    morse = L['morse']
    base = {'range-then-zero': D(('>', 0.0, form('polynomial', 4.0, -4.0, 1.0)), ('>=', 2.0, form('zero'))), 'zero': D(form('zero')),
            'table-beyond-data': D({'table': 'tf'}), 'product-with-zero': D(mod('product', form('buck', 1000.0, 0.3, 32.0), D(('>', 0.0, form('constant', 1.0)), ('>=', 2.0, form('zero')))))}[case['base']]
    expo = {'r-dependent': form('polynomial', 0.5, 0.1), 'r-dependent-steep': form('polynomial', 0.25, 1.5, 0.5)}.get(case['e']) or form('constant', case['e'])
    t = mod('pow', base, expo)       # (the exponent stays positive on the probes: 0 ** b(r) is the zero function there)
    d = D(t) if case['wrap'] == 'none' else D(mod(case['wrap'], t, morse))
    env = M.env()
    if case['via'] == 'api':
        try:
            f = R.api_defn(d)
        except R.NoAPI:
            return dict(outcome='skip', nontrivial=False, evals=0, violations=[])
    else:
        f = R.config_read(M.pair_ini('LAMMPS', [('A', 'B', d)], 5.0, 6)).potentials[0].potentialFunction
    viol, n = [], 0
    for r in ((13.5, 14.0, 20.0) if case['base'] == 'table-beyond-data' else (2.5, 3.0, 4.75)):
        a = X.ev_defn(base, r, env)
        if (a.v, a.d1, a.d2) != (0.0, 0.0, 0.0):
            return dict(outcome='harness:base-not-zero', nontrivial=False, evals=0, violations=[dict(sig='harness:base-not-zero', msg=repr(a), detail={})])
        mj = X.ev_item(morse, r, env)
        pj = Jet(0.0, 0.0, 0.0)
        tot = pj if case['wrap'] == 'none' else (pj + mj if case['wrap'] == 'sum' else pj * mj)
        for which, want in (('__call__', tot.v), ('deriv', tot.d1), ('deriv2', tot.d2)):
            if which != '__call__' and not hasattr(f, which):
                viol.append(dict(sig='%s-not-offered' % which, msg='%s: .%s is not offered' % (X.render_defn(d), which), detail={}))
                break
            n += 1
            try:
                got = f(r) if which == '__call__' else getattr(f, which)(r)
            except (ZeroDivisionError, ValueError, OverflowError) as ex:
                viol.append(dict(sig='%s-raises-where-pow-base-is-identically-zero:%s' % (which, type(ex).__name__), msg='%s: %s(%r) raised %s: %s; the base is the zero function around r and the true value is %r'
                                 % (X.render_defn(d), which, r, type(ex).__name__, ex, want), detail={}))
                break
            if not abs(got - want) <= 1e-9 * (abs(want) + abs(mj.v) + abs(mj.d1) + abs(mj.d2) + 1.0):
                viol.append(dict(sig='%s-wrong-where-pow-base-is-identically-zero' % which, msg='%s: %s(%r) = %r, true value %r' % (X.render_defn(d), which, r, got, want), detail={}))
                break
        if viol:
            break
    return dict(outcome='ok:pow_flat_zero' if not viol else 'violation', nontrivial=True, evals=n, violations=viol)


KW_PARAMS = {'buck': (1000.0, 0.3, 32.0), 'bornmayer': (850.0, 0.35), 'morse': (1.8, 2.0, 0.6), 'lj': (0.2, 2.5), 'coul': (2.4, -1.2), 'hbnd': (120.0, 35.0), 'exponential': (3.0, 2.5),
             'zbl': (14, 8), 'sqrt': (0.3,), 'constant': (2.5,), 'exp_spline': (0.7, -0.9, 0.01, 0.002, 0.0, 0.0, 0.05), 'tang_toennies': (41.96, 2.388, 1.461, 14.11, 183.6)}


def run_kwderiv(case):
    import inspect, functools
    import atsim.potentials.potentialfunctions as pf
    f = getattr(pf, case['f'])
    p = KW_PARAMS[case['f']]
    names = [q.name for q in inspect.signature(f).parameters.values() if q.kind == q.POSITIONAL_OR_KEYWORD][1:]
    viol, n = [], 0
    if len(names) != len(p):
        return dict(outcome='skip', nontrivial=False, evals=0, violations=[])
    items = list(zip(names, p))
    orders = {'reversed': dict(items[::-1]), 'rotated': dict(items[1:] + items[:1])}
    for which in ('__call__', 'deriv', 'deriv2'):
        if which != '__call__' and not hasattr(f, which):
            continue
        g = f if which == '__call__' else getattr(f, which)
        for r in (0.9, 1.7, 3.1):
            want = g(r, *p)
            for oname, kw in orders.items():
                for how, got in (('keywords %s' % oname, g(r, **kw)), ('functools.partial, keywords %s' % oname, functools.partial(g, **kw)(r)), ('r by keyword too, %s' % oname, g(**dict(kw, r=r)))):
                    n += 1
                    if got != want:
                        viol.append(dict(sig='keyword-call-differs:%s' % which, msg='%s.%s(%r, %s) [%s] = %r, the positional call gives %r' % (case['f'], which, r, kw, how, got, want), detail={}))
                        break
                if viol:
                    break
            if viol:
                break
        if viol:
            break
    return dict(outcome='ok:kwderiv' if not viol else 'violation', nontrivial=True, evals=n, violations=viol)


def run_util(case):
    import atsim.potentials as ap
    L = dict((n, it) for n, it, _l in leaves())
    it = L[case['f']]
    f = R.api_item(it)
    lvl = level(it)
    h = case['h']
    kw = {} if h is None else {'h': h}
    hh = 1e-6 if h is None else h
    g = ap.gradient(f, **kw)
    viol, n = [], 0
    env = M.env()

    def V(sig, msg):
        viol.append(dict(sig=sig, msg='%s, h=%r: %s' % (case['f'], h, msg), detail={}))
    if hasattr(g, 'deriv') != (lvl >= 2):
        V('gradient-deriv-offer', 'gradient(f) %s .deriv although f %s .deriv2' % ('offers' if hasattr(g, 'deriv') else 'does not offer', 'offers' if lvl >= 2 else 'does not offer'))
    for r in (0.7, 1.3, 2.9):
        j = X.ev_item(it, r, env)
        cd = (f(r + hh / 2.0) - f(r - hh / 2.0)) / ((r + hh / 2.0) - (r - hh / 2.0))        # the documented central difference with the caller's step
        want = j.d1 if lvl >= 1 else cd
        tol = 1e-9 * (abs(j.d1) + 1.0) if lvl >= 1 else 8 * M.EPS * (abs(j.v) + 1.0) / hh
        for name, got in (('gradient(f%s)(r)' % ('' if h is None else ', h'), g(r)), ('deriv(r, f%s)' % ('' if h is None else ', h'), ap.deriv(r, f, **kw))):
            n += 1
            if not abs(got - want) <= tol:
                V('util-derivative', '%s at r=%r = %r, expected %r (%s)' % (name, r, got, want, 'analytic .deriv' if lvl >= 1 else 'central difference with step %r' % hh))
                break
        n += 1
        got = ap.num_deriv(r, f, **kw)
        if not abs(got - cd) <= 8 * M.EPS * (abs(j.v) + 1.0) / hh:
            V('util-num_deriv', 'num_deriv(r, f%s) at r=%r = %r, central difference with step %r is %r' % ('' if h is None else ', h', r, got, hh, cd))
        if lvl >= 2 and hasattr(g, 'deriv'):
            n += 1
            if not abs(g.deriv(r) - j.d2) <= 1e-9 * (abs(j.d2) + 1.0):
                V('gradient-deriv-value', 'gradient(f).deriv(%r) = %r, f.deriv2 gives %r' % (r, g.deriv(r), j.d2))
        if viol:
            break
    return dict(outcome='ok:util' if not viol else 'violation', nontrivial=True, evals=n, violations=viol)


ZBL_SETS = {'moliere': dict(Ck1=0.35, Ck2=0.55, Ck3=0.10, Ck4=0.0, Bk1=0.3, Bk2=1.2, Bk3=6.0, Bk4=1.0),
            'krc': dict(Ck1=0.190945, Ck2=0.473674, Ck3=0.335381, Ck4=0.0, Bk1=0.278544, Bk2=0.637174, Bk3=1.919249, Bk4=1.0), 'default': {}}


def _richardson(f, r, h):
    d = lambda hh: (f(r + hh) - f(r - hh)) / (2 * hh)   # noqa
    return (4 * d(h / 2) - d(h)) / 3.0


def run_zbl_coeffs(case):
    import atsim.potentials.potentialfunctions as pf
    cls = type(pf.zbl)
    cs = ZBL_SETS[case['coeffs']]
    if case['how'] == 'subclass':
        obj = type('MyZBL', (cls,), dict(cs))()
    else:
        obj = cls()
        for k, v in cs.items():
            setattr(obj, k, v)
    viol, n = [], 0
    for z1, z2 in ((14, 8), (92, 92), (1, 2)):
        for r in (0.3, 0.7, 1.3, 2.9):
            e = lambda x: obj(x, z1, z2)            # noqa
            d = lambda x: obj.deriv(x, z1, z2)      # noqa
            w1, w2 = _richardson(e, r, 1e-3 * r), _richardson(d, r, 1e-3 * r)
            for which, got, want in (('deriv', obj.deriv(r, z1, z2), w1), ('deriv2', obj.deriv2(r, z1, z2), w2)):
                n += 1
                if not abs(got - want) <= 1e-6 * (abs(want) + abs(e(r)) / r):
                    viol.append(dict(sig='%s-wrong:zbl-with-other-coefficients' % which, msg='zbl (%s coefficients set through %s), Z = %d, %d: %s(%r) = %r, the slope of its own %s is %r'
                                     % (case['coeffs'], case['how'], z1, z2, which, r, got, 'energy' if which == 'deriv' else 'deriv', want), detail={}))
                    return dict(outcome='violation', nontrivial=True, evals=n, violations=viol)
    return dict(outcome='ok:zbl_coeffs', nontrivial=True, evals=n, violations=viol)


def run_zbl_interleaved(case):
    """energy / deriv / deriv2 of several ZBL pairs asked for in every order on the shared as.zbl object: each value depends on its own arguments only"""
    import atsim.potentials.potentialfunctions as pf
    z = pf.zbl
    asks = [(w, zz, r) for w in ('e', 'd', 'd2') for zz in ((14, 8), (92, 8), (40, 40)) for r in (0.5, 1.7)]

    def ask(a):
        w, (z1, z2), r = a
        return z(r, z1, z2) if w == 'e' else (z.deriv(r, z1, z2) if w == 'd' else z.deriv2(r, z1, z2))
    alone = {}
    for a in asks:
        alone[a] = ask(a)
    viol, n = [], 0
    for a in asks:
        for b in asks:
            n += 1
            ask(b)
            got = ask(a)
            if got != alone[a]:
                viol.append(dict(sig='zbl-depends-on-previous-evaluation', msg='as.zbl %s for Z=%r at r=%r is %r after evaluating %s for Z=%r at r=%r, %r otherwise' % (a[0], a[1], a[2], got, b[0], b[1], b[2], alone[a]), detail={}))
                return dict(outcome='violation', nontrivial=True, evals=n, violations=viol)
            # and when b is evaluated BETWEEN the energy and the derivative of a
            ask(('e', a[1], a[2]))
            ask(b)
            if ask(a) != alone[a]:
                viol.append(dict(sig='zbl-depends-on-previous-evaluation', msg='as.zbl %s for Z=%r at r=%r changes when %s for Z=%r is evaluated between its energy and it' % (a[0], a[1], a[2], b[0], b[1]), detail={}))
                return dict(outcome='violation', nontrivial=True, evals=n, violations=viol)
    return dict(outcome='ok:zbl_interleaved', nontrivial=True, evals=n, violations=viol)


def run_case(case):
    if case['route'] == 'zbl_coeffs':
        return run_zbl_coeffs(case)
    if case['route'] == 'zbl_interleaved':
        return run_zbl_interleaved(case)
    if case['route'] == 'util':
        return run_util(case)
    if case['route'] == 'pow_zero':
        return run_pow_zero(case)
    if case['route'] == 'kwderiv':
        return run_kwderiv(case)
    if case['route'] == 'pow_flat_zero':
        return run_pow_flat_zero(case)
    if case['route'] == 'shared':
        return run_shared(case)
    if case['route'] == 'leaf':
        return run_leaf(case)
    if case['route'] == 'mr_default':
        return run_mr_default(case)
    env = M.env()
    try:
        f, dref = build(case)
    except R.NoAPI:
        return dict(outcome='no-api', nontrivial=False, evals=0, violations=[])
    viol = []
    evals = skipped = 0
    lv_max, lv_min = dlevel(case['d']), min_level(case['d'])
    bps = X.breakpoints(dref)
    has1, has2 = hasattr(f, 'deriv'), hasattr(f, 'deriv2')
    # documented: deriv offered iff some component offers it (likewise deriv2)
    if lv_max >= 1 and not has1:
        viol.append(dict(sig='deriv-not-offered', msg='a component offers .deriv but the composed callable %s does not' % X.render_defn(case['d']) if case['route'] == 'cfg' else 'a component offers .deriv but the composition does not', detail={}))
    if lv_max == 0 and case['route'] == 'api' and has1:
        viol.append(dict(sig='deriv-offered-without-source', msg='no component offers .deriv but the composition does', detail={}))
    rs = list(RS) + ([0.0] if case['route'] == 'api' else [])
    for r in rs:
        if X.near_breakpoint(bps, r, 1e-3):
            skipped += 1
            continue
        try:
            ref, sc, e1, e2, _lvl = analyze(dref, r, env)
        except (Skip, ZeroDivisionError, ValueError, OverflowError, TypeError):
            skipped += 1
            continue
        if not all(math.isfinite(x) and abs(x) < 1e200 for x in (ref.v, ref.d1, ref.d2, sc.v, sc.d1, sc.d2, e1, e2)):
            skipped += 1
            continue
        try:
            v = f(r)
        except (ZeroDivisionError, ValueError, OverflowError):
            skipped += 1      # the energy itself is not evaluable here: outside the statement
            continue
        if abs(v - ref.v) > 1e-9 * sc.v + 1e-12:
            viol.append(dict(sig='energy', msg='%s: energy(%r) = %r, reference %r' % (X.render_defn(case['d']) if case['route'] == 'cfg' else case['d'], r, v, ref.v), detail={}))
            break
        for which, has, refd in (('deriv', has1, ref.d1), ('deriv2', has2, ref.d2)):
            if not has:
                continue
            evals += 1
            try:
                got = getattr(f, which)(r)
            except (ZeroDivisionError, ValueError, OverflowError) as e:
                viol.append(dict(sig='%s-raises:%s' % (which, engine.exc_sig(e).split(':', 1)[1]), msg='%s(%r) raised %s: %s although the energy is defined and differentiable there (%s)'
                                 % (which, r, type(e).__name__, e, X.render_defn(case['d']) if case['route'] == 'cfg' else case['d']), detail={}))
                break
            if which == 'deriv':
                allow = 1e-9 * sc.d1 + 1e-12 + e1
            else:
                allow = 1e-9 * sc.d2 + 1e-12 + e2
            if not (abs(got - refd) <= allow):
                viol.append(dict(sig='%s-wrong' % which, msg='%s: %s(%r) = %r, true derivative %r (allowance %.3g, analytic level %d)'
                                 % (X.render_defn(case['d']) if case['route'] == 'cfg' else case['d'], which, r, got, refd, allow, lv_min), detail={}))
                break
        else:
            continue
        break
    nt = any('mod' in it for _m, _s, it in case['d']['ranges']) or len(case['d']['ranges']) > 1
    return dict(outcome='ok:%s:L%d%d' % (case['route'], lv_min, lv_max) if not viol else 'violation', nontrivial=nt or True, evals=evals, violations=viol, skipped=skipped)
