"""C09 - potable model language: modifiers and custom formulas mean what is documented."""
import io, itertools, math

from .. import models as M, routes as R
from ..refmodel import expr as X
from ..refmodel.expr import form, D, mod
from . import C07

PROPERTY = 'C09'
LEVEL = 'exploration'
RULE = ('cases = (a) every potential definition of the documented grammar with nesting depth <= 2 (thorough 3), modifier arity <= 3, leaves '
        '{5 built-in forms, 2 custom forms, 1 table form}, range prefixes {none, >=0, two ranges, range on a nested modifier}, modifiers sum / '
        'product / pow (two arguments) / trans, placed in [Pair], [EAM-Embed], [EAM-Density] (plain and A->B) and [EAM-ADP-Dipole]; (b) every '
        '[Potential-Form] body of the expression grammar E ::= r | p1 | p2 | 2 | 0.5 | (E op E) | g(r,E) | as.buck(r,E,p2,1) | pymath.exp(E) | '
        'if(r>p1,E,E) to depth 2 (one recursive side a leaf), instantiated with two parameter vectors, plus precedence probes; (c) formatting '
        'variants (":" / "=", blanks and tabs, whitespace inside keys, continuation lines, comment lines, section order, entry order incl. a '
        'custom form defined after its caller); oracle: reference evaluator of the documented semantics at 9 separations (rel 1e-12), all '
        'variants bit-identical, equality with the Python-API composition where one exists; non-trivial = definition with >= 1 modifier / body with >= 1 operator')
RULE += "; (d) names differing only in case (forms, parameters, tables, built-ins): documented meaning or refusal; (e) every pymath function x 6..24 argument expressions of either sign against Python's math; (f) formulas of magnitude 1e-300..1e200; (g) every custom-formula entry of the shared library evaluated three times over; further formatting variants: number spellings, values on the line after the key, blanks inside section brackets"
ASSUMPTIONS = [
    'pow() with more than two operands is read as a left fold ((a**b)**c)**d (the anchored `reduce`; the repository\'s own three-operand test); the manual\'s example "pow(2, 3, 2) = 2^(2^3) = 256" fits neither association and is not used; a^b^c inside formulas is outside the alphabet; operator precedence is judged only on the fixed probes',
    'every unmarked definition (also nested in a modifier) acts for r > 0 only (documented default range)',
    'formula points where a sub-expression is undefined (division by zero, negative base with fractional exponent, overflow) are skipped and counted',
]
BOUNDS = {'quick': 'definitions: depth 2 over 8 leaves (about 3.5k); formula bodies: about 2.2k x 2 parameter vectors; 40 formatting-variant groups',
          'thorough': 'definitions depth 3 (reduced leaf set), all formula bodies of depth 2'}

RS = [0.05, 0.3, 0.8, 1.0, 1.6, 2.5, 4.0, 7.5, 12.0]

LEAVES = [form('buck', 1000.0, 0.3, 32.0), form('morse', 1.8, 2.0, 0.6), form('polynomial', 1.0, -2.0, 0.5), form('constant', 2), form('exponential', 0.5, 2),
          {"custom": "mix", "params": [700.0, 0.4]}, {"custom": "inner", "params": [12.0]}, {"table": "tf"}]


def leaf_defns():
    out = []
    for i, it in enumerate(LEAVES):
        out.append(D(it))
        if i % 2 == 0:
            out.append(D(('>=', 0.0, it)))
        if i % 3 == 0:
            out.append(D(('>', 0.0, it), ('>=', 2.05, LEAVES[(i + 1) % len(LEAVES)])))
    return out


def definitions(tier):
    L = leaf_defns()
    plain = [D(it) for it in LEAVES]
    out = list(L)
    for c in ('sum', 'product'):
        for a, b in itertools.product(plain, plain):
            out.append(D(mod(c, a, b)))
        for a, b, c3 in itertools.product(plain[:4], repeat=3):
            out.append(D(mod(c, a, b, c3)))
    for a, b in itertools.product(plain, plain):
        out.append(D(mod('pow', a, b)))
    for a in L:
        for x in (-0.5, 0.75):
            out.append(D(mod('trans', a, x=x)))
    # depth 2
    sub = plain[:5] if tier == 'quick' else plain
    for c1, c2 in itertools.product(('sum', 'product', 'pow'), repeat=2):
        for a, b, c3 in itertools.product(sub, sub[:3], sub[:3]):
            out.append(D(mod(c1, mod(c2, a, b), c3)))
            out.append(D(mod(c1, c3, mod(c2, a, b))))
    for c1 in ('sum', 'product'):
        for a, b, c3 in itertools.product(sub[:4], repeat=3):
            # a range on the nested modifier / on a nested potential
            out.append(D(mod(c1, a, D(('>=', 2.0, mod(c1, b, c3))))))
            out.append(D(mod(c1, a, D(('>', 1.5, mod('product' if c1 == 'sum' else 'sum', b, c3))))))
            out.append(D(mod(c1, D(('>=', 0.0, a['ranges'][0][2]), ('>', 2.05, b['ranges'][0][2])), c3)))
            out.append(D(mod('trans', D(mod(c1, a, b)), x=0.3)))
            out.append(D(mod(c1, mod('trans', a, x=0.3), b)))
    out.append(D(('>', 0.0, mod('sum', plain[0], plain[1])), ('>=', 2.05, mod('product', plain[3], plain[1]))))
    # a nested modifier argument with a later-starting range of its own FOLLOWED by a single-range argument that starts below it (all orders)
    for c1 in ('sum', 'product'):
        for a, b, c3 in itertools.product(sub[:3], repeat=3):
            args = [a, D(('>=', 1.6, mod('product' if c1 == 'sum' else 'sum', b, c3))), D(('>', 0.9, c3['ranges'][0][2]))]
            for perm in itertools.permutations(args):
                out.append(D(mod(c1, *perm)))
            out.append(D(('>=', 0.0, mod(c1, D(mod('pow', a, form('constant', 2))), D(('>=', 0.0, form('polynomial', 0.0, 1.0)))))))
            out.append(D(('>=', -1.0, mod(c1, D(mod('trans', b, x=0.75)), c3))))
    # a multi-range ARGUMENT whose first piece is an unmarked modifier of the same kind as its parent, followed by further ranges
    zero = form('zero')
    for c1 in ('sum', 'product'):
        for a, b, c3 in itertools.product(sub[:4], repeat=3):
            out.append(D(mod(c1, D(mod(c1, a, b), ('>=', 2.0, zero)), c3)))
            out.append(D(mod(c1, c3, D(mod(c1, a, b), ('>', 1.5, LEAVES[1]), ('>=', 4.0, zero)))))
    # powers of powers: the magnitude idiom (f^2)^0.5 with f changing sign, (f^2)^1.5, (f^4)^0.25, integer outer exponents
    signed = [form('polynomial', 1.0, -2.0, 0.5), form('polynomial', -3.0, 1.0), form('morse', 1.8, 2.0, 0.6)]
    for f_ in signed:
        for e1, e2 in ((2, 0.5), (2, 1.5), (4, 0.25), (2, 2), (3, 2), (2.0, 0.5)):
            out.append(D(mod('pow', mod('pow', f_, form('constant', e1)), form('constant', e2))))
            out.append(D(mod('sum', mod('pow', mod('pow', f_, form('constant', e1)), form('constant', e2)), form('constant', 1))))
    # pow() with three and four operands: each raised to the power of the next, from the left (what `reduce` gives and the repository's own
    # three-operand test expects); every ordered choice of the later operands
    pbase = form('polynomial', 1.5, 0.5)
    pexp = [form('constant', 1.5), form('constant', 2), form('constant', 0.5), form('polynomial', 0.25, 0.05)]
    for n in (2, 3):
        for es in itertools.product(pexp, repeat=n):
            out.append(D(mod('pow', pbase, *es)))
    out.append(D(mod('pow', form('constant', 2), form('constant', 3), form('constant', 2), form('constant', 0.5))))
    # structured deep chains (depth 4 and 5) and wide modifiers (arity 5)
    for k in range(8):
        a, b, c_, d_, e_ = [plain[(k + j) % 5] for j in range(5)]
        out.append(D(mod('sum', mod('product', mod('pow', mod('trans', D(mod('sum', a, b)), x=0.25), plain[3]), c_), d_)))
        out.append(D(mod('product', plain[3], mod('sum', a, mod('product', b, mod('sum', c_, mod('trans', d_, x=-0.25)))))))
        out.append(D(mod('sum', a, b, c_, d_, e_)))
        out.append(D(mod('product', a, plain[3], c_, plain[4], e_)))
        out.append(D(('>', 0.0, mod('sum', a, D(('>=', 1.0, mod('product', b, D(('>', 2.0, mod('sum', c_, d_)))))))), ('>=', 3.0, e_['ranges'][0][2])))
    if tier != 'quick':
        s3 = plain[:3]
        for c1, c2, c3 in itertools.product(('sum', 'product', 'pow'), repeat=3):
            for a, b, c_, d_ in itertools.product(s3, repeat=4):
                out.append(D(mod(c1, mod(c2, mod(c3, a, b), c_), d_)))
    return out


# ------------------------------------------------------------------------------------------ formulas
def f_leaves():
    return [('r',), ('p', 1), ('p', 2), ('num', 2), ('num', 0.5)]


def f_bodies(tier):
    Lf = f_leaves()
    d1 = []
    for o in '+-*/^':
        for a, b in itertools.product(Lf, Lf):
            d1.append(('op', o, a, b))
    for a in Lf:
        d1 += [('g', a), ('buck', a), ('exp', a)]
    for a, b in itertools.product(Lf, Lf):
        d1.append(('if', a, b))
    out = list(Lf) + d1
    sub = d1[::4] if tier == 'quick' else d1
    for e in sub:
        for lf in Lf:
            for o in '+-*/^':
                out.append(('op', o, e, lf))
                out.append(('op', o, lf, e))
        out += [('g', e), ('exp', e), ('if', e, ('num', 2)), ('if', ('r',), e)]
    return out


def f_text(e):
    k = e[0]
    if k == 'r':
        return 'r'
    if k == 'p':
        return 'p%d' % e[1]
    if k == 'num':
        return X.num(float(e[1])) if not float(e[1]).is_integer() else str(int(e[1]))
    if k == 'op':
        return '(%s %s %s)' % (f_text(e[2]), e[1], f_text(e[3]))
    if k == 'g':
        return 'g(r, %s)' % f_text(e[1])
    if k == 'buck':
        return 'as.buck(r, %s, p2, 1)' % f_text(e[1])
    if k == 'exp':
        return 'pymath.exp(%s)' % f_text(e[1])
    return 'if(r > p1, %s, %s)' % (f_text(e[1]), f_text(e[2]))


class Undefined(Exception):
    pass


def f_eval(e, r, p1, p2):
    k = e[0]
    if k == 'r':
        return r
    if k == 'p':
        return p1 if e[1] == 1 else p2
    if k == 'num':
        return float(e[1])
    if k == 'op':
        a, b = f_eval(e[2], r, p1, p2), f_eval(e[3], r, p1, p2)
        o = e[1]
        try:
            if o == '+':
                return a + b
            if o == '-':
                return a - b
            if o == '*':
                return a * b
            if o == '/':
                if b == 0:
                    raise Undefined()
                return a / b
            if a < 0 and not float(b).is_integer():
                raise Undefined()
            if a == 0 and b <= 0:
                raise Undefined()
            v = a ** b
            if isinstance(v, complex):
                raise Undefined()
            return v
        except (OverflowError, ZeroDivisionError):
            raise Undefined()
    if k == 'g':
        s = f_eval(e[1], r, p1, p2)
        return s / (1.0 + r * r) + 0.25 * s
    if k == 'buck':
        A = f_eval(e[1], r, p1, p2)
        if p2 == 0:
            raise Undefined()
        try:
            return A * math.exp(-r / p2) - 1.0 / r ** 6
        except OverflowError:
            raise Undefined()
    if k == 'exp':
        try:
            return math.exp(f_eval(e[1], r, p1, p2))
        except OverflowError:
            raise Undefined()
    # if(): both branches are expressions of the documented language; only the selected one defines the value
    if r > p1:
        return f_eval(e[1], r, p1, p2)
    return f_eval(e[2], r, p1, p2)


def f_depth(e):
    return 0 if e[0] in ('r', 'p', 'num') else 1 + max(f_depth(x) for x in e[1:] if isinstance(x, tuple))


PROBES = [('a+b*c', 'p1 + p2 * r', lambda r, a, b: a + b * r), ('a*b^c', 'p1 * p2 ^ r', lambda r, a, b: a * b ** r),
          ('a-b-c', 'p1 - p2 - r', lambda r, a, b: a - b - r), ('a/b/c', 'p1 / p2 / r', lambda r, a, b: a / b / r),
          ('-a*b', '-p1 * r', lambda r, a, b: -(a * r)), ('a-b*c+d', 'p1 - p2 * r + 2', lambda r, a, b: a - b * r + 2),
          ('unary minus power', '-r^2', lambda r, a, b: -(r ** 2)), ('a*(b+c)', 'p1 * (p2 + r)', lambda r, a, b: a * (b + r))]
PVECS = [(1.5, 0.35), (0.75, 2.25)]


# ------------------------------------------------------------------------------------------ cases
SECTIONS = ['Pair', 'EAM-Embed', 'EAM-Density', 'EAM-Density-fs', 'EAM-ADP-Dipole']


def cases(tier):
    out = []
    defs = definitions(tier)
    for i in range(0, len(defs), 12):
        out.append(dict(kind='defs', section=SECTIONS[(i // 12) % len(SECTIONS)], defs=defs[i:i + 12]))
    bodies = f_bodies(tier)
    for i in range(0, len(bodies), 40):
        out.append(dict(kind='formulas', bodies=[list_of(b) for b in bodies[i:i + 40]]))
    out.append(dict(kind='probes'))
    out.append(dict(kind='case'))
    for name in sorted(PYMATH):
        out.append(dict(kind='pymath', name=name))
    out.append(dict(kind='magnitudes'))
    # every custom-formula entry of the shared library (nested calls with other arguments, several statements, call spellings, comments on
    # continuation lines, assignments to parameters, block syntax): evaluated three times over, in different orders
    for n, _d, _t in M.lib():
        if n.startswith('custom') or n in ('qq_m1', 'qq_m2'):
            out.append(dict(kind='libform', name=n))
    for i in range(0, len(defs), max(1, len(defs) // 40)):
        out.append(dict(kind='formatting', d=defs[i], seed=i))
    return out


def list_of(t):
    return [list_of(x) if isinstance(x, tuple) else x for x in t]


def tuple_of(l):
    return tuple(tuple_of(x) if isinstance(x, list) else x for x in l)


def support(defns):
    return M.render_support(defns)


def defs_ini(section, defns):
    """one file holding all definitions of the batch in `section`; returns (text, accessor list)"""
    labels = ['S%d' % i for i in range(len(defns))]
    eam = section != 'Pair'
    tgt = {'Pair': 'LAMMPS', 'EAM-Embed': 'setfl', 'EAM-Density': 'setfl', 'EAM-Density-fs': 'setfl_fs', 'EAM-ADP-Dipole': 'eam_adp'}[section]
    out = ['[Tabulation]', 'target : %s' % tgt, 'nr : 3', 'cutoff : 2.0']
    if eam:
        out += ['nrho : 3', 'cutoff_rho : 5.0', '', '[Species]']
        for l in labels:
            out += ['%s.atomic_number : 1' % l, '%s.atomic_mass : 1.0' % l]
    texts = [X.render_defn(d) for d in defns]
    z = 'as.zero'
    if section == 'Pair':
        out += ['', '[Pair]'] + ['%s-Q : %s' % (l, t) for l, t in zip(labels, texts)]
    else:
        emb = texts if section == 'EAM-Embed' else [z] * len(labels)
        out += ['', '[EAM-Embed]'] + ['%s : %s' % (l, t) for l, t in zip(labels, emb)]
        if section == 'EAM-Density-fs':
            out += ['', '[EAM-Density]'] + ['%s->%s : %s' % (l, labels[(i + 1) % len(labels)], t) for i, (l, t) in enumerate(zip(labels, texts))]
        else:
            dens = texts if section == 'EAM-Density' else [z] * len(labels)
            out += ['', '[EAM-Density]'] + ['%s : %s' % (l, t) for l, t in zip(labels, dens)]
        out += ['', '[Pair]']
        if section == 'EAM-ADP-Dipole':
            out += ['', '[EAM-ADP-Dipole]'] + ['%s-%s : %s' % (l, l, t) for l, t in zip(labels, texts)]
            out += ['', '[EAM-ADP-Quadrupole]']
    out += [''] + support(defns)
    return '\n'.join(out) + '\n', labels


def accessor(tab, section, labels, i):
    l = labels[i]
    if section == 'Pair':
        return [p for p in tab.potentials if p.speciesA == l][0].energy
    if section == 'EAM-ADP-Dipole':
        return [p for p in tab.dipole_potentials if p.speciesA == l][0].energy
    ep = [e for e in tab.eam_potentials if e.species == l][0]
    if section == 'EAM-Embed':
        return ep.embeddingFunction
    if section == 'EAM-Density':
        return ep.electronDensityFunction
    return ep.electronDensityFunction[labels[(i + 1) % len(labels)]]


def run_defs(case):
    env = M.env()
    viol = []
    defns = case['defs']
    text, labels = defs_ini(case['section'], defns)
    tab = R.config_read(text)
    n = skipped = 0
    for i, d in enumerate(defns):
        f = accessor(tab, case['section'], labels, i)
        api = None
        try:
            if not X.uses(d, lambda it: 'custom' in it or it.get('mod') == 'trans'):
                # definitions without any range marker: compose the callables DIRECTLY (plus/product/pow nested as a user of the
                # Python API would); all separations probed are > 0, where the default range is transparent
                api = R.api_defn(d if all_unmarked(d) else potable_semantics(d))
        except R.NoAPI:
            api = None
        bps = X.breakpoints(d)
        for r in RS + [0.0, -0.5]:
            if X.near_breakpoint(bps, r, 1e-9) and r > 0:
                continue
            try:
                ref = X.ev_defn(d, r, env).v
                sc = ref_scale(d, r, env) if r > 0 else abs(ref) + 1.0
            except (C07.Skip, ZeroDivisionError, ValueError, OverflowError, TypeError):
                skipped += 1
                continue
            if isinstance(ref, complex) or not math.isfinite(ref) or not math.isfinite(sc) or sc > 1e200:
                skipped += 1
                continue
            n += 1
            try:
                got = f(r)
            except (ZeroDivisionError, ValueError, OverflowError) as e:
                viol.append(dict(sig='definition-raises:%s' % type(e).__name__, msg='[%s] %s at r=%r raised %s: %s, documented value %r'
                                 % (case['section'], X.render_defn(d), r, type(e).__name__, e, ref), detail={}))
                break
            if not abs(got - ref) <= 1e-12 * sc + 1e-300:
                viol.append(dict(sig='definition-value:%s' % top(d), msg='[%s] "%s" at r=%r evaluates to %r, documented meaning %r' % (case['section'], X.render_defn(d), r, got, ref), detail={}))
                break
            if api is not None and r > 0:
                try:
                    av = api(r)
                except (ZeroDivisionError, ValueError, OverflowError):
                    continue
                if not abs(av - got) <= 1e-12 * sc + 1e-300:
                    viol.append(dict(sig='differs-from-python-api:%s' % top(d), msg='"%s" at r=%r: potable %r, Python-API composition %r' % (X.render_defn(d), r, got, av), detail={}))
                    break
    return viol, n


def all_unmarked(d):
    for marker, _s, it in d['ranges']:
        if marker is not None or len(d['ranges']) > 1:
            return False
        for a in it.get('args', []):
            if not all_unmarked(a):
                return False
    return True


def potable_semantics(d):
    """the Python-API composition of the same pieces: every unmarked definition carries the documented default range > 0"""
    import copy
    d = copy.deepcopy(d)

    def fix(dd):
        for rg in dd['ranges']:
            if rg[0] is None:
                rg[0], rg[1] = '>', 0.0
            for a in rg[2].get('args', []):
                fix(a)
    fix(d)
    return d


def top(d):
    it = d['ranges'][0][2]
    return it.get('mod') or ('custom' if 'custom' in it else 'table' if 'table' in it else 'form')


def ref_scale(d, r, env):
    from . import C07
    _j, S, _e1, _e2, _l = C07.analyze(d, r, env)
    return S.v + 1e-300


def run_formulas(case):
    viol = []
    bodies = [tuple_of(b) for b in case['bodies']]
    n = skipped = 0
    forms = ['[Potential-Form]', 'g(r, s) = s/(1 + r^2) + 0.25*s']
    pairs = []
    for i, b in enumerate(bodies):
        forms.append('f%d(r, p1, p2) = %s' % (i, f_text(b)))
        for j, (p1, p2) in enumerate(PVECS):
            pairs.append('F%dx%d-Q : >=0 f%d %s %s' % (i, j, i, X.num(p1), X.num(p2)))
    # half of the batches define g AFTER its callers
    if len(bodies) % 2 == 0:
        forms = [forms[0]] + forms[2:] + [forms[1]]
    text = '[Tabulation]\ntarget : LAMMPS\nnr : 3\ncutoff : 2.0\n\n[Pair]\n' + '\n'.join(pairs) + '\n\n' + '\n'.join(forms) + '\n'
    tab = R.config_read(text)
    pots = {p.speciesA: p for p in tab.potentials}
    for i, b in enumerate(bodies):
        for j, (p1, p2) in enumerate(PVECS):
            f = pots['F%dx%d' % (i, j)].energy
            for r in RS:
                try:
                    ref = f_eval(b, r, p1, p2)
                    # a sub-expression of an unselected if() branch may still be undefined for the expression library
                    if b[0] == 'if' or any(isinstance(x, tuple) and x and x[0] == 'if' for x in b):
                        for br in all_branches(b):
                            f_eval(br, r, p1, p2)
                except Undefined:
                    skipped += 1
                    continue
                if not math.isfinite(ref) or abs(ref) > 1e250:
                    skipped += 1
                    continue
                n += 1
                try:
                    got = f(r)
                except Exception as e:  # noqa
                    viol.append(dict(sig='formula-raises:%s' % type(e).__name__, msg='f(r,p1,p2) = %s with (p1,p2)=%r at r=%r raised %s: %s; documented value %r'
                                     % (f_text(b), (p1, p2), r, type(e).__name__, e, ref), detail={}))
                    break
                if not (abs(got - ref) <= 1e-11 * (abs(ref) + f_scale(b, r, p1, p2))):
                    viol.append(dict(sig='formula-value:%s' % b[0], msg='f(r,p1,p2) = %s with (p1,p2)=%r at r=%r evaluates to %r, documented meaning %r' % (f_text(b), (p1, p2), r, got, ref), detail={}))
                    break
            else:
                continue
            break
    return viol, n


def all_branches(b):
    out = []
    for x in b[1:]:
        if isinstance(x, tuple):
            out.append(x)
            out += all_branches(x)
    return out


def f_scale(e, r, p1, p2):
    """magnitude of the largest intermediate value (conditioning of sums/differences)"""
    try:
        vals = [abs(f_eval(x, r, p1, p2)) for x in all_branches(e)]
    except Undefined:
        vals = []
    return max(vals + [1e-300])


def run_probes(case):
    viol = []
    n = 0
    forms = ['[Potential-Form]']
    pairs = []
    for i, (name, text, fn) in enumerate(PROBES):
        forms.append('q%d(r, p1, p2) = %s' % (i, text))
        pairs.append('Q%d-Q : >=0 q%d 1.5 0.35' % (i, i))
    text = '[Tabulation]\ntarget : LAMMPS\nnr : 3\ncutoff : 2.0\n\n[Pair]\n' + '\n'.join(pairs) + '\n\n' + '\n'.join(forms) + '\n'
    tab = R.config_read(text)
    pots = {p.speciesA: p for p in tab.potentials}
    for i, (name, ftext, fn) in enumerate(PROBES):
        for r in RS:
            n += 1
            got, ref = pots['Q%d' % i].energy(r), fn(r, 1.5, 0.35)
            if abs(got - ref) > 1e-12 * (abs(ref) + 1.0):
                viol.append(dict(sig='precedence:%s' % name, msg='"%s" at r=%r gives %r, conventional precedence gives %r' % (ftext, r, got, ref), detail={}))
                break
    return viol, n


CASE_MODELS = [
    ('forms f and F', '[Potential-Form]\nf(r, a) = a*r\nF(r, a) = 100*a\ng(r) = f(r, 1) + F(r, 2)\n', 'g', lambda r: r + 200.0),
    ('parameters A and a', '[Potential-Form]\nh(r, A, a) = A*r + a\n', 'h 1 100', lambda r: r + 100.0),
    ('table TF and formula tf', '[Table-Form:TF]\nx : 0 1 2 3 4 5 6 7 8 9 10 11 12 13\ny : 9 9 9 9 9 9 9 9 9 9 9 9 9 9\n\n[Potential-Form]\ntf(r) = 2*r\nk(r) = tf(r) + TF(r)\n', 'k', lambda r: 2 * r + 9.0),
    ('parameter R and the separation r', '[Potential-Form]\nm(r, R) = r + 10*R\n', 'm 3', lambda r: r + 30.0),
    ('tables tab and Tab', '[Table-Form:tab]\nx : 0 5 10 15\ny : 1 1 1 1\n\n[Table-Form:Tab]\nx : 0 5 10 15\ny : 20 20 20 20\n\n[Potential-Form]\nk(r) = tab(r) + Tab(r)\n', 'k', lambda r: 21.0),
    ('table AS.zero next to the built-in as.zero', '[Table-Form:AS.zero]\nx : 0 5 10 15\ny : 5 5 5 5\n\n[Potential-Form]\nk(r) = AS.zero(r) + as.zero(r) + 1\n', 'k', lambda r: 6.0),
    ('table Helper and formula helper', '[Table-Form:Helper]\nx : 0 5 10 15\ny : 7 7 7 7\n\n[Potential-Form]\nhelper(r) = 2*r\nk(r) = helper(r) + Helper(r)\n', 'k', lambda r: 2 * r + 7.0),
]


# pymath.NAME is documented as Python's math.NAME: every function x arguments of either sign / mixed signs / integer-valued arguments
PYMATH = {n: 1 for n in ('ceil', 'fabs', 'floor', 'trunc', 'exp', 'log1p', 'log10', 'sqrt', 'acos', 'atan', 'cos', 'sin', 'tan', 'radians', 'degrees',
                         'acosh', 'asinh', 'atanh', 'cosh', 'sinh', 'tanh', 'log')}
PYMATH.update({n: 2 for n in ('copysign', 'fmod', 'pow', 'atan2', 'hypot')})
PYMATH.update({'log/2': 2, 'fsum': 3})


def run_pymath(case):
    import math
    name = case['name']
    fn_name = name.split('/')[0]
    arity = PYMATH[name]
    a1 = ['r - p1', 'p1 - r', '(r - p1) * p2', 'r * p2', 'r', 'p1 * p2']
    a2 = ['p2', '-p2', 'r + p2', 'p1 - r - p2']
    combos = [(x,) for x in a1] if arity == 1 else ([(x, y) for x in a1 for y in a2] if arity == 2 else [(x, y, z) for x in a1[:3] for y in a2[:2] for z in a1[3:]])
    forms, pairs = ['[Potential-Form]'], []
    for i, args in enumerate(combos):
        forms.append('w%d(r, p1, p2) = 1.0 + pymath.%s(%s)' % (i, fn_name, ', '.join(args)))
        pairs.append('W%d-Q : >=0 w%d 1.3 0.45' % (i, i))
    text = '[Tabulation]\ntarget : LAMMPS\nnr : 3\ncutoff : 2.0\n\n[Pair]\n' + '\n'.join(pairs) + '\n\n' + '\n'.join(forms) + '\n'
    pots = {p.speciesA: p for p in R.config_read(text).potentials}
    viol, n = [], 0
    ref = getattr(math, fn_name)
    for i, args in enumerate(combos):
        for r in RS:
            env = dict(r=r, p1=1.3, p2=0.45)
            try:
                want = 1.0 + ref(*[eval(a, {}, env) for a in args]) if fn_name != 'fsum' else 1.0 + math.fsum([eval(a, {}, env) for a in args])
            except (ValueError, OverflowError, ZeroDivisionError):
                continue                        # outside the function's domain: nothing is documented
            # discontinuous functions (fmod, floor, ceil, trunc, copysign): skip arguments within rounding distance of a jump
            try:
                vals = [eval(a, {}, env) for a in args]
                near = [ref(*[v * (1 + s_ * 1e-12) + s_ * 1e-13 for v in vals]) if fn_name != 'fsum' else 0.0 for s_ in (-1, 1)]
                if any(abs(1.0 + q - want) > 1e-9 * (abs(want) + 1.0) for q in near):
                    continue
            except (ValueError, OverflowError, ZeroDivisionError):
                continue
            n += 1
            try:
                got = pots['W%d' % i].energy(r)
            except Exception as e:  # noqa
                viol.append(dict(sig='pymath-raises:%s' % fn_name, msg='pymath.%s(%s) at r=%r (p1=1.3, p2=0.45) raised %s: %s; math.%s gives %r' % (fn_name, ', '.join(args), r, type(e).__name__, e, fn_name, want - 1.0), detail={}))
                break
            if not abs(got - want) <= 1e-12 * (abs(want) + 1.0):
                viol.append(dict(sig='pymath-value:%s' % fn_name, msg='pymath.%s(%s) at r=%r (p1=1.3, p2=0.45) gives %r, math.%s gives %r' % (fn_name, ', '.join(args), r, got - 1.0, fn_name, want - 1.0), detail={}))
                break
        if viol:
            break
    return viol, n


def run_magnitudes(case):
    """formulas whose values are very small or very large (SI units, rescaled helper forms): the potential is the formula, not a rounded version of it"""
    import math
    forms = ['[Potential-Form]', 'decay(r, k) = exp(-k*r)']
    pairs, fns = [], []
    for i, (scale, txt) in enumerate(((1e-20, '1e-20'), (1.6e-19, '1.6e-19'), (3e-30, '3e-30'), (1e-300, '1e-300'), (2.5e15, '2.5e15'), (1e200, '1e200'))):
        forms.append('m%d(r, A) = A * %s * decay(r, 1.1)' % (i, txt))
        forms.append('n%d(r, A) = A * decay(r, 1.1) * %s - %s * 0.25' % (i, txt, txt))
        pairs += ['M%d-Q : >=0 m%d 0.7' % (i, i), 'N%d-Q : >=0 sum(n%d 0.7, n%d 0.1)' % (i, i, i)]
        fns += [('M%d' % i, lambda r, s=scale: 0.7 * s * math.exp(-1.1 * r)), ('N%d' % i, lambda r, s=scale: 0.8 * math.exp(-1.1 * r) * s - 2 * s * 0.25)]
    text = '[Tabulation]\ntarget : LAMMPS\nnr : 3\ncutoff : 2.0\n\n[Pair]\n' + '\n'.join(pairs) + '\n\n' + '\n'.join(forms) + '\n'
    pots = {p.speciesA: p for p in R.config_read(text).potentials}
    viol, n = [], 0
    for name, fn in fns:
        for r in RS:
            n += 1
            got, want = pots[name].energy(r), fn(r)
            if not abs(got - want) <= 1e-11 * abs(want):
                viol.append(dict(sig='formula-magnitude', msg='formula of magnitude %.1e at r=%r evaluates to %r, the formula gives %r' % (abs(want), r, got, want), detail={}))
                break
        if viol:
            break
    return viol, n


def run_libform(case):
    d, _t = M.lib_by_name(case['name'])
    env = M.env()
    f = R.config_read(M.pair_ini('LAMMPS', [('A', 'B', d)], 5.0, 6)).potentials[0].potentialFunction
    viol, n = [], 0
    for sweep in (RS, RS[::-1], RS[::2] + RS[1::2], RS):
        for r in sweep:
            n += 1
            want = X.ev_defn(d, r, env).v
            got = f(r)
            if not abs(got - want) <= 1e-11 * (abs(want) + 1.0):
                viol.append(dict(sig='library-formula-value', msg='%s = %s: evaluation %d (r=%r) gives %r, the formula means %r' % (case['name'], X.render_defn(d), n, r, got, want), detail={}))
                return viol, n
    return viol, n


def run_case_variants(case):
    """names that differ only in case: the formula language is case-insensitive, so such a model must either evaluate to its
    documented meaning or be refused as a configuration error - never tabulate a different function"""
    from atsim.potentials.config._common import ConfigurationException
    viol = []
    n = 0
    for name, forms, use, fn in CASE_MODELS:
        text = '[Tabulation]\ntarget : LAMMPS\nnr : 3\ncutoff : 2.0\n\n[Pair]\nA-B : >=0 %s\n\n%s' % (use, forms)
        try:
            tab = R.config_read(text)
            f = tab.potentials[0].energy
            for r in RS:
                n += 1
                got = f(r)
                if abs(got - fn(r)) > 1e-12 * (abs(fn(r)) + 1.0):
                    viol.append(dict(sig='case-insensitive-names-merged', msg='%s: accepted, but at r=%r the potential evaluates to %r, its documented meaning is %r' % (name, r, got, fn(r)), detail={'text': text}))
                    break
        except ConfigurationException:
            n += 1
    return viol, n


# ------------------------------------------------------------------------------------------ formatting variants
def variants(d, seed):
    """texts that must denote the same model as the canonical one"""
    base = X.render_defn(d)
    sup = support([d])
    extra_pair = 'Zz-Zz : as.lj 0.2 2.5'
    canonical = '[Tabulation]\ntarget : LAMMPS\nnr : 3\ncutoff : 2.0\n\n[Pair]\nA-B : %s\n%s\n\n%s\n' % (base, extra_pair, '\n'.join(sup))
    out = [('canonical', canonical)]
    out.append(('equals sign', canonical.replace(' : ', ' = ')))
    out.append(('no blanks around separator', canonical.replace(' : ', ':')))
    out.append(('tabs', canonical.replace(' : ', '\t:\t')))
    out.append(('whitespace in keys', canonical.replace('A-B', 'A - B').replace('mix(r, A, rho)', 'mix( r,A ,rho )').replace('inner(r, C)', 'inner(r,C)')))
    out.append(('comment lines', canonical.replace('[Pair]\n', '# a comment\n[Pair]\n# another comment\n').replace('[Tabulation]\n', '[Tabulation]\n; semicolon comment\n')))
    # continuation lines: break the definition after every comma / before every range marker
    cont = base.replace(', ', ',\n      ').replace(' >', '\n      >')
    out.append(('continuation lines', canonical.replace('A-B : %s\n' % base, 'A-B : %s\n' % cont)))
    out.append(('entry order', canonical.replace('A-B : %s\n%s\n' % (base, extra_pair), '%s\nA-B : %s\n' % (extra_pair, base))))
    # section order: support sections first, and custom forms in reverse order (callee after caller / before caller)
    rsup = list(sup)
    if rsup and rsup[0] == '[Potential-Form]':
        k = rsup.index('')
        rsup = [rsup[0]] + rsup[1:k][::-1] + rsup[k:]
    out.append(('section order', '%s\n\n[Pair]\nA-B : %s\n%s\n\n[Tabulation]\ntarget : LAMMPS\nnr : 3\ncutoff : 2.0\n' % ('\n'.join(rsup), base, extra_pair)))
    out.append(('number spellings', canonical.replace('A-B : %s\n' % base, 'A-B : %s\n' % respell(base))))
    # blanks inside the brackets of the section headers
    out.append(('blanks inside section brackets', canonical.replace('[Tabulation]', '[Tabulation ]').replace('[Pair]', '[ Pair ]').replace('[Potential-Form]', '[Potential-Form\t]').replace('[Table-Form:', '[ Table-Form:')))
    # every value starts on the line after its key (the custom-form signatures keep ' = ')
    out.append(('values on the line after the key', canonical.replace(' : ', ' :\n        ')))
    out.append(('blank lines and trailing blanks', canonical.replace('\n[Pair]\n', '\n\n\n[Pair]   \n').replace('A-B : %s\n' % base, 'A-B : %s   \n\n' % base)))
    return out


def respell(text):
    """the same numbers written differently: scientific notation, explicit plus sign, trailing / leading decimal point"""
    import re
    k = [0]

    def one(m):
        tok = m.group(0)
        k[0] += 1
        try:
            if re.match(r'^[+-]?\d+$', tok):
                return ('+' + tok) if (k[0] % 2 and not tok.startswith(('-', '+'))) else tok       # stays an integer
            x = float(tok)
        except ValueError:
            return tok
        style = k[0] % 4
        if style == 0:
            out = '%.17e' % x
        elif style == 1:
            out = repr(x) if x < 0 else '+' + repr(x)
        elif style == 2:
            out = repr(x)[:-1] if repr(x).endswith('.0') else repr(x).upper()
        else:
            out = repr(x)[1:] if repr(x).startswith('0.') else ('-' + repr(x)[2:] if repr(x).startswith('-0.') else repr(x))
        assert float(out) == x
        return out
    return re.sub(r'(?<![A-Za-z_.\w])[+-]?(?:\d+\.?\d*|\.\d+)(?:[eE][+-]?\d+)?(?![A-Za-z_\w.])', one, text)


def run_formatting(case):
    viol = []
    d = case['d']
    vals = None
    n = 0
    for name, text in variants(d, case['seed']):
        tab = R.config_read(text)
        f = [p for p in tab.potentials if p.speciesA == 'A'][0].energy
        got = []
        for r in RS:
            try:
                got.append(f(r))
            except (ZeroDivisionError, ValueError, OverflowError) as e:
                got.append(type(e).__name__)
        n += len(RS)
        if vals is None:
            vals = got
        elif list(map(repr, got)) != list(map(repr, vals)):       # (repr: a nan compares unequal to itself)
            viol.append(dict(sig='formatting-variant:%s' % name, msg='"%s": the variant "%s" gives %r, the canonical text gives %r' % (X.render_defn(d), name, got, vals), detail={'text': text}))
            break
    return viol, n


def run_case(case):
    viol, n = dict(defs=run_defs, formulas=run_formulas, probes=run_probes, formatting=run_formatting, case=run_case_variants, pymath=run_pymath, magnitudes=run_magnitudes, libform=run_libform)[case['kind']](case)
    return dict(outcome='ok:%s:%s' % (case['kind'], case.get('section', '')) if not viol else 'violation', nontrivial=True, evals=max(1, n), violations=viol)
