"""C12 - tabulation is deterministic; evaluation is pure (no history / process dependence)."""
import io, json, os, sys, hashlib, base64, itertools

from .. import routes as R, hist, seams, boot
from ..readers import eam as RE

PROPERTY = 'C12'
LEVEL = 'model_checking'
RULE = ('histories = every valid sequence up to depth D over {B(i): build model i from its text (replaces the handle), E(i, k): evaluate probe k '
        '(a potential / embedding / density function at one argument) of model i, W(i): write model i to a fresh sink} for 8 models (two pair '
        'models sharing custom-form labels with different bodies and arguments and a multi-range potential probed exactly at an exclusive '
        'boundary; under-specified EAM and Finnis-Sinclair models; EAM models with and without [Species] overrides of the same element; two '
        'models with the same table-form name; an Excel model), each history executed on fresh objects in one long-lived process; '
        'reference = the pure function model text -> bytes / probe -> value obtained once per model in a FRESH process; environment '
        'dimension: every model re-tabulated under all 24 iteration orders of every set built by the library (PermSet seam) and in fresh '
        'processes under 10 hash seeds; Excel bytes under a frozen clock; sequences (2, thorough 3) of tabulations that re-use one set of Potential / '
        'EAMPotential objects (memoised numpy callable, TableReader) over 8 targets x 2 grids, and of potable runs into one OUTPUT_FILE (16 model/size '
        'variants); composed API potentials used as operands after evaluation; OUTPUT_FILE = /dev/stdout in a pipe; THREAD SCHEDULES: two real threads '
        'tabulating at once under a cooperative scheduler - (a) switch points = evaluations of the model functions, every schedule with <= 2 '
        'pre-emptions (A at its i-th, B at its j-th evaluation) for 14 target pairs, (b) switch point = any traced line of the library, one '
        'pre-emption (B runs to completion), also with both threads writing ONE tabulation object; PROCESS ENVIRONMENT: every model (and the potable command line) in fresh processes run with python -O, -OO, with logging configured at DEBUG / ERROR by the embedding application, and both: same bytes, same probe values; probes include an evaluation that fails inside a formula (later evaluations of the same objects are unaffected) and separations handed over as 0-d numpy arrays (the array belongs to the caller: unchanged, and the value repeatable); PROCESS STATE: after every operation of every history the process-wide state (numpy error mode and print options, recursion limit, cwd, decimal context, locale, logging levels, umask, sys.stdout) is what it was before')
ASSUMPTIONS = [
    'set-order seam: module-level name `set` injected into config/_eam_potential_builder, _dlpoly_writeTABEAM, config/_config_parser, config/_tabulation_factories; a set built elsewhere whose order reaches the output is only covered by the hash-seed runs',
    'hash seeds {0,1,2,3,5,8,13,21,34,random}: the seeds control iteration order, all orders of the covered sets are enumerated by the seam',
    'bounded: 8 models, depth <= 3 (quick) / 4 (thorough)',
    'the xlsx container embeds creation/modification time stamps: byte identity is demanded under a frozen clock; the dependence on the wall clock itself is recorded as known finding F03',
]
BOUNDS = {'quick': 'histories depth 4 over 37 operations; 24 set orders x 8 models; 10 hash seeds x 8 models; reuse / output-file sequences of length 2; thread schedules: every i x five j per target pair, every 7th library line',
          'thorough': 'histories depth 5 (3 probes per model); reuse / output-file sequences of length 3; thread schedules: every (i, j), every library line'}

MODELS = {}
MODELS['pairA'] = ("""[Tabulation]
target : LAMMPS
nr : 5
cutoff : 4.0

[Pair]
O-O : shared 1000.0 0.3
U-O : shared 800.0 0.35
U-U : >0 as.buck 500.0 0.4 2.0 >3.0 as.constant 0.25 >=3.5 as.zero
Zr-O : as.zbl 40 8
Zr-Zr : as.zbl 40 40
Th-O : spline(as.bornmayer 1200.0 0.3 >=1.0 exp_spline >=2.0 as.buck 0.0 1.0 30.0)
Th-Th : as.buck4 1500.0 0.25 25.0 1.0 1.6 2.2
Pu-O : trans(as.buck 900.0 0.32 20.0, as.constant 0.5)
Cm-O : >=0 shared 700.0 0.3

[Potential-Form]
shared(r, A, rho) = A*exp(-r/rho) - inner(r, 2.0*rho) + as.buck(r, 10.0, rho, 1.0)
inner(r, s) = s/r^2
""", [['pair', 0, 1.0], ['pair', 1, 1.0], ['pair', 2, 3.0], ['pair', 2, 5.0], ['pair', 2, 3.5], ['pair', 2, 3.2], ['force', 3, 0.5], ['pair', 4, 0.7], ['force', 4, 0.7], ['pair', 5, 1.5], ['pair', 6, 1.3],
      # an evaluation that fails inside a formula (as.buck at r = 0) - later evaluations of the same objects are unaffected; a separation handed over as a 0-d numpy array (it is the caller's)
      ['pair', 8, 0.0], ['pair0d', 7, 1.5], ['pair0d', 1, 1.25], ['pair', 8, 1.0]])
MODELS['pairB'] = ("""[Tabulation]
target : LAMMPS
nr : 5
cutoff : 4.0

[Pair]
O-O : shared 1000.0 0.3
U-O : shared 650.0 0.4
U-U : >0 as.buck 500.0 0.4 2.0 >=3.0 as.constant 0.75
Zr-O : inner 0.7
Zr-Zr : inner 0.9

[Potential-Form]
shared(r, A, rho) = A*exp(-r/rho) + inner(r, rho)
inner(r, s) = s/r^4
""", [['pair', 0, 1.0], ['pair', 1, 1.0], ['pair', 2, 3.0], ['pair', 2, 2.0], ['pair', 3, 1.0], ['pair', 4, 1.0]])
MODELS['eamU'] = ("""[Tabulation]
target : setfl
nr : 4
cutoff : 3.0
nrho : 4
cutoff_rho : 9.0

[Species]
Ni.atomic_mass : 60.0
Ni.lattice_constant : 3.52
Ni.lattice_type : bcc

[EAM-Embed]
Ni : >=0 as.polynomial 0.1 -1.0 0.01

[EAM-Density]
Ni : >=0 as.exp_spline 0.7 -0.9 0.01 0 0 0 0
Cu : >=0 as.exp_spline 0.9 -1.0 0.02 0 0 0 0.05
Al : >=0 as.exp_spline 1.1 -1.1 0.03 0 0 0 0.1
Fe : >=0 as.exp_spline 1.3 -1.2 0.04 0 0 0 0.15

[Pair]
Ni-Ni : >=0 as.morse 1.2 2.0 0.3
Cu-Al : >=0 as.morse 1.3 2.05 0.35
""", [['embed', 0, 2.5], ['dens', 0, 1.5], ['pair', 1, 1.5]])
MODELS['eamP'] = ("""[Tabulation]
target : DL_POLY_EAM
nr : 4
cutoff : 3.0
nrho : 4
cutoff_rho : 9.0

[EAM-Embed]
Ni : >=0 as.polynomial 0.2 -1.3 0.02
Cu : >=0 as.polynomial 0.3 -1.6 0.03

[EAM-Density]
Cu : >=0 as.exp_spline 0.9 -1.0 0.02 0 0 0 0.05
Ni : >=0 as.exp_spline 0.7 -0.9 0.01 0 0 0 0
Fe : >=0 as.exp_spline 1.3 -1.2 0.04 0 0 0 0.15
Al : >=0 as.exp_spline 1.1 -1.1 0.03 0 0 0 0.1

[Pair]
Cu-Ni : >=0 as.morse 1.4 2.1 0.4
""", [['embed', 0, 2.5], ['dens', 1, 1.5], ['pair', 0, 1.5]])
MODELS['fsU'] = ("""[Tabulation]
target : setfl_fs
nr : 4
cutoff : 3.0
nrho : 4
cutoff_rho : 9.0

[EAM-Embed]
Al : >=0 as.polynomial 0.1 -1.0 0.01

[EAM-Density]
Al->Cu : >=0 as.exp_spline 0.2 -1.1 0.02 0 0 0 0
Ni->Al : >=0 as.exp_spline 0.3 -1.1 0.02 0 0 0 0
Fe->Fe : >=0 as.exp_spline 0.4 -1.1 0.02 0 0 0 0

[Pair]
Al-Al : >=0 as.morse 1.2 2.0 0.3
""", [['embed', 0, 2.5], ['pair', 0, 1.5]])
MODELS['tableA'] = ("""[Tabulation]
target : GULP
nr : 5
cutoff : 4.0

[Pair]
A-B : >=0 sum(tf, as.polynomial 0.5 0.25)

[Table-Form:tf]
x : 0 1 2 3 4 5
y : 9 4 1 -1 -0.5 0
""", [['pair', 0, 1.0], ['pair', 0, 2.5]])
MODELS['tableB'] = ("""[Tabulation]
target : GULP
nr : 5
cutoff : 4.0

[Pair]
A-B : >=0 sum(tf, as.polynomial 0.5 0.25)

[Table-Form:tf]
xy : 0 2  1 3  2 7  3 2.5  4 1  5 0.5
""", [['pair', 0, 1.0], ['pair', 0, 2.5]])
MODELS['excelP'] = ("""[Tabulation]
target : excel
nr : 4
cutoff : 3.0

[Pair]
O-O : >=0 as.polynomial 1.0 -2.0 0.5
U-O : >=0 as.morse 1.8 2.0 0.6
""", [['pair', 0, 1.0], ['pair', 1, 2.0]])
NAMES = sorted(MODELS)
CLOCK = 1700000000.0


def build(name):
    return R.config_read(MODELS[name][0])


def probe(tab, p):
    kind, idx, x = p
    if kind == 'pair0d':
        import numpy
        r = numpy.array(x)
        v1 = tab.potentials[idx].energy(r)
        v2 = tab.potentials[idx].energy(r)
        f = tab.potentials[idx].force(r)
        return [float(v1), float(v2), float(f), float(r)]
    if kind == 'pair':
        try:
            return tab.potentials[idx].energy(x)
        except Exception as e:  # noqa  (which exception is part of the observation)
            return 'raises:%s' % type(e).__name__
    if kind == 'force':
        return tab.potentials[idx].force(x)
    ep = tab.eam_potentials[idx]
    if kind == 'embed':
        return ep.embeddingFunction(x)
    f = ep.electronDensityFunction
    return f(x)


def write(tab):
    with seams.frozen_clock(CLOCK):
        data = R.write_tabulation(tab)
    return data if isinstance(data, str) else 'b64:' + base64.b64encode(data).decode()


def pure_reference(name):
    """model text -> (bytes, probe values), evaluated in this (assumed fresh) process"""
    tab = build(name)
    vals = [probe(build(name), p) for p in MODELS[name][1]]        # (each probe on objects of its own: the reference is a function of text and probe)
    return dict(bytes=write(tab), probes=vals)


_REF = {}


def refs():
    """references come from ONE fresh process per model (see tools/c12_ref.py)"""
    if not _REF:
        for name in NAMES:
            rc, out, err = seams.fresh_process([os.path.join(boot.VERIF, 'tools', 'c12_ref.py'), name], hashseed=0)
            if rc != 0:
                raise RuntimeError('reference process for model %s failed: %s' % (name, err.decode()[-2000:]))
            _REF[name] = json.loads(out.decode())
    return _REF


CLI_ARGS = ['-a', 'Pair:Th-O=as.lj 0.2 2.5', '-a', 'Pair:Th-Th=as.morse 1.8 2.0 0.6', 'Pair:Pu-O=as.buck 900.0 0.31 2.0', '-a', 'Pair:Pu-Pu=as.hbnd 120.0 35.0',
            '-e', 'Tabulation:cutoff=6.0', '-e', 'Tabulation:cutoff=5.0', 'Tabulation:nr=6']
_CLI = {}


def cli_run(seed, **env):
    """potable command line with several --add-item / conflicting --override-item options in a fresh process"""
    import tempfile
    if 'cfg' not in _CLI:
        d = tempfile.mkdtemp(dir=R.scratch())
        _CLI['cfg'] = os.path.join(d, 'cli.aspot')
        with open(_CLI['cfg'], 'w') as f:
            f.write(MODELS['pairB'][0])
    out = tempfile.mktemp(dir=os.path.dirname(_CLI['cfg']), suffix='.out')
    rc, so, se = seams.fresh_process([os.path.join(boot.VERIF, 'tools', 'potable_main.py'), _CLI['cfg'], out] + CLI_ARGS, hashseed=seed, **env)
    data = None
    if os.path.exists(out):
        with open(out) as f:
            data = f.read()
        os.remove(out)
    return rc, data, se.decode()[-300:]


def valid(prefix):
    built = set()
    for op in prefix:
        if op[0] == 'B':
            built.add(op[1])
        elif op[1] not in built:
            return False
    return True


def cases(tier):
    refs()
    out = []
    alphabet = [['B', n] for n in NAMES] + [['W', n] for n in NAMES]
    for n in NAMES:
        for k in range(min(2 if tier == 'quick' else 3, len(MODELS[n][1]))):
            alphabet.append(['E', n, k])
    # every model has at least its boundary probes in the alphabet
    extra = [['E', 'pairA', 2], ['E', 'pairA', 3], ['E', 'pairA', 4], ['E', 'pairA', 5], ['E', 'pairB', 2], ['E', 'pairB', 4], ['E', 'pairA', 6], ['E', 'pairA', 7], ['E', 'pairA', 8], ['E', 'pairA', 11], ['E', 'pairA', 12], ['E', 'pairA', 13], ['E', 'pairA', 14]]      # (pairB probe 4: a form used directly that another form also calls)
    for e in extra:
        if e not in alphabet:
            alphabet.append(e)
    depth = 4 if tier == 'quick' else 5
    for h in hist.histories(alphabet, depth, valid):
        if all(op[0] == 'B' for op in h):
            continue
        out.append(dict(kind='history', ops=h))
    for n in NAMES:
        for k in range(24):
            out.append(dict(kind='setorder', model=n, perm=k))
        for seed in ('0', '1', '2', '3', '5', '8', '13', '21', '34', 'random'):
            out.append(dict(kind='hashseed', model=n, seed=seed))
    out.append(dict(kind='clock', model='excelP'))
    # process environment: the interpreter's optimisation level (python -O / -OO strip assert statements and docstrings) and an embedding
    # application that configured logging at DEBUG level before importing the library
    for n in NAMES:
        for env in PROCENVS:
            out.append(dict(kind='procenv', model=n, env=env))
    # Python API: a composed potential that was already evaluated is used as an operand of a further composition (and evaluated again)
    from . import C07
    from ..refmodel.expr import form as _form
    shl = [_form('buck', 1000.0, 0.3, 32.0), _form('morse', 1.8, 2.0, 0.6), {'py': 'py_plain'}]
    for c1, c2 in itertools.product(('sum', 'product', 'pow'), repeat=2):
        for a, b, c in itertools.product(shl, repeat=3):
            for side in (0, 1):
                out.append(dict(kind='api-share', route='shared', c1=c1, c2=c2, a=a, b=b, c=c, side=side))
    # Python API: ONE set of Potential / EAMPotential objects serves a sequence of tabulations for different targets and grids
    reuse = [[t, g] for t in REUSE_TARGETS for g in (0, 1)]
    for depth in ((2,) if tier == 'quick' else (2, 3)):
        for seq in itertools.product(reuse, repeat=depth):
            out.append(dict(kind='api-reuse', seq=[list(x) for x in seq]))
    # OUTPUT_FILE is the process's standard output (potable model /dev/stdout | gzip > TABLE.gz): the pipe carries the table and nothing else
    for n in NAMES:
        if n != 'excelP':
            out.append(dict(kind='stdout-alias', model=n))
    # two threads tabulating at the same time, under a controlled scheduler: thread A is pre-empted at its i-th function evaluation, thread B runs
    # up to its j-th evaluation, A runs to completion, then B (at most two pre-emptions; every (i, j) in the thorough tier)
    pairs = [(t, t) for t in REUSE_TARGETS] + [('LAMMPS', 'DLPOLY'), ('DLPOLY', 'GULP'), ('setfl', 'setfl_fs'), ('setfl', 'eam_adp'), ('DL_POLY_EAM', 'DL_POLY_EAM_fs'), ('setfl', 'DL_POLY_EAM')]
    for ta, tb in pairs:
        na, nb = thread_evals(ta, 0), thread_evals(tb, 1)
        js = range(1, nb + 1) if tier != 'quick' else sorted(set([1, 2, nb // 2, nb - 1, nb]))
        for i in range(1, na + 1):
            for j in js:
                out.append(dict(kind='threads', a=ta, b=tb, i=i, j=j))
    # the same with pre-emption at ANY line of the library (not only at function evaluations): thread A is pre-empted in front of its n-th traced
    # line, thread B runs its whole tabulation, A resumes (one pre-emption; every n in the thorough tier, every 7th in the quick tier);
    # 'same' = both threads write the SAME tabulation object to two sinks
    for ta, tb in [(t, t) for t in REUSE_TARGETS] + [('LAMMPS', 'DLPOLY'), ('setfl', 'DL_POLY_EAM_fs')]:
        for same in ((False, True) if ta == tb else (False,)):
            nl = thread_lines(ta)
            for n in range(1, nl + 1, 1 if tier != 'quick' else 7):
                out.append(dict(kind='threads-fine', a=ta, b=tb, n=n, same=same))
    # the potable command line writing, one run after the other, into the SAME OUTPUT_FILE: every ordered sequence of (model, size)
    alpha = [[n, big] for n in NAMES for big in (0, 1)]
    for depth in ((2,) if tier == 'quick' else (2, 3)):
        for seq in itertools.product(alpha, repeat=depth):
            if seq[-1][0] == 'excelP':
                continue        # workbook bytes embed the clock (F03): the workbook only occurs as the older content
            out.append(dict(kind='outfile', seq=[list(x) for x in seq]))
    _CLI['ref'] = cli_run('0')
    for seed in ('1', '2', '3', '5', '8', '13', '21', '34', 'random', '4'):
        out.append(dict(kind='hashseed-cli', seed=seed))
    for env in PROCENVS:
        out.append(dict(kind='hashseed-cli', seed='0', env=env))
    return out


def describe(ops):
    return ' '.join('%s(%s)' % (o[0], ','.join(map(str, o[1:]))) for o in ops)


def run_history(case):
    ref = refs()
    handles = {}
    viol = []
    states = []
    warm = {}
    g0 = seams.global_state()
    for step, op in enumerate(case['ops']):
        name = op[1]
        if op[0] == 'B':
            handles[name] = build(name)
            warm[name] = 0
        elif op[0] == 'E':
            got = probe(handles[name], MODELS[name][1][op[2]])
            want = ref[name]['probes'][op[2]]
            warm[name] = 1
            pk = MODELS[name][1][op[2]]
            if pk[0] == 'pair0d' and (got[0] != got[1] or got[3] != pk[2]):
                viol.append(dict(sig='argument-mutated-or-value-not-repeatable', msg='history %s: model %s potential %d evaluated twice at the 0-d array %r gives %r and %r; the array holds %r afterwards'
                                 % (describe(case['ops']), name, pk[1], pk[2], got[0], got[1], got[3]), detail={}))
            if got != want:
                viol.append(dict(sig='impure-evaluation', msg='history %s: probe %r of model %s = %r, in a fresh process %r'
                                 % (describe(case['ops']), MODELS[name][1][op[2]], name, got, want), detail={}))
        else:
            got = write(handles[name])
            warm[name] = 2
            if got != ref[name]['bytes']:
                viol.append(dict(sig='output-depends-on-history', msg='history %s: the bytes written for model %s differ from those of a fresh process (%d vs %d bytes; first difference at %d)'
                                 % (describe(case['ops']), name, len(got), len(ref[name]['bytes']), first_diff(got, ref[name]['bytes'])), detail={}))
        states.append(','.join('%s%d' % (n, warm[n]) for n in sorted(handles)))
        gd = seams.global_state_diff(g0, seams.global_state())
        if gd:
            viol.append(dict(sig='process-state-changed:' + gd[0].split(':')[0], msg='history %s: after %s the process-wide state differs from before the history (%s): unrelated code that runs '
                             'afterwards in this process behaves differently' % (describe(case['ops']), describe([op]), '; '.join(gd)), detail={}))
            _restore_global_state(g0)
        if viol:
            break
    return dict(outcome='ok:history:%d' % len(case['ops']) if not viol else 'violation', nontrivial=len(set(o[1] for o in case['ops'])) >= 2 or len(case['ops']) >= 3,
                evals=len(case['ops']), violations=viol, states=sorted(set(states)), transitions=len(case['ops']), traces=1)


def _restore_global_state(g0):
    import numpy
    numpy.seterr(**dict(g0['numpy_errstate']))
    sys.setrecursionlimit(g0['recursion_limit'])


def first_diff(a, b):
    for i, (x, y) in enumerate(zip(a, b)):
        if x != y:
            return i
    return min(len(a), len(b))


def run_setorder(case):
    ref = refs()
    name = case['model']
    viol = []
    with seams.set_order(case['perm']) as unavailable:
        got = write(build(name))
    if got != ref[name]['bytes']:
        viol.append(dict(sig='output-depends-on-set-order', msg='model %s: with set iteration order #%d the output differs from the reference (first difference at byte %d): %r vs %r'
                         % (name, case['perm'], first_diff(got, ref[name]['bytes']), got[:200], ref[name]['bytes'][:200]), detail={}))
    return dict(outcome='ok:setorder' if not viol else 'violation', nontrivial=True, evals=1, violations=viol, states=['setorder:%s' % name], transitions=1, traces=1)


def run_hashseed(case):
    ref = refs()
    name = case['model']
    viol = []
    rc, out, err = seams.fresh_process([os.path.join(boot.VERIF, 'tools', 'c12_ref.py'), name], hashseed=case['seed'])
    if rc != 0:
        viol.append(dict(sig='fresh-process-failed', msg='model %s under PYTHONHASHSEED=%s: exit %d: %s' % (name, case['seed'], rc, err.decode()[-500:]), detail={}))
    else:
        got = json.loads(out.decode())
        if got['bytes'] != ref[name]['bytes']:
            viol.append(dict(sig='output-depends-on-hash-seed', msg='model %s: PYTHONHASHSEED=%s gives different bytes than seed 0 (first difference at %d): %r vs %r'
                             % (name, case['seed'], first_diff(got['bytes'], ref[name]['bytes']), got['bytes'][:200], ref[name]['bytes'][:200]), detail={}))
        elif got['probes'] != ref[name]['probes']:
            viol.append(dict(sig='value-depends-on-hash-seed', msg='model %s: PYTHONHASHSEED=%s gives probe values %r, seed 0 gives %r' % (name, case['seed'], got['probes'], ref[name]['probes']), detail={}))
    return dict(outcome='ok:hashseed' if not viol else 'violation', nontrivial=True, evals=1, violations=viol, states=['hashseed:%s' % name], transitions=1, traces=1)


PROCENVS = [dict(optimize=1), dict(optimize=2), dict(logging_level='DEBUG'), dict(optimize=1, logging_level='DEBUG'), dict(logging_level='ERROR')]


def run_procenv(case):
    ref = refs()
    name, env = case['model'], case['env']
    viol = []
    rc, out, err = seams.fresh_process([os.path.join(boot.VERIF, 'tools', 'c12_ref.py'), name], hashseed=0, **env)
    if rc != 0:
        viol.append(dict(sig='fresh-process-failed', msg='model %s in a process with %r: exit %d: %s' % (name, env, rc, err.decode()[-500:]), detail={}))
    else:
        got = json.loads(out.decode())
        if got['bytes'] != ref[name]['bytes']:
            viol.append(dict(sig='output-depends-on-process-environment', msg='model %s: a process with %r gives different bytes than a plain one (first difference at %d): %r vs %r'
                             % (name, env, first_diff(got['bytes'], ref[name]['bytes']), got['bytes'][:200], ref[name]['bytes'][:200]), detail={}))
        elif got['probes'] != ref[name]['probes']:
            viol.append(dict(sig='value-depends-on-process-environment', msg='model %s: a process with %r gives probe values %r, a plain one %r' % (name, env, got['probes'], ref[name]['probes']), detail={}))
    return dict(outcome='ok:procenv' if not viol else 'violation', nontrivial=True, evals=1, violations=viol, states=['procenv:%s' % name], transitions=1, traces=1)


def run_clock(case):
    """Excel: byte identity under a frozen clock is demanded; dependence on the wall clock is exhibited with the virtual clock"""
    viol = []
    tab = build(case['model'])
    with seams.frozen_clock(CLOCK):
        a = R.write_tabulation(tab)
        b = R.write_tabulation(tab)
        c = R.write_tabulation(build(case['model']))
    if not (a == b == c):
        viol.append(dict(sig='xlsx-differs-under-frozen-clock', msg='two writes of the Excel model at the same virtual instant differ', detail={}))
    with seams.frozen_clock(CLOCK + 7200.0):
        d = R.write_tabulation(tab)
    if RE.read_xlsx(a) != RE.read_xlsx(d):
        viol.append(dict(sig='xlsx-cells-depend-on-clock', msg='the cell contents of the Excel model change with the clock', detail={}))
    if a != d:
        viol.append(dict(sig='xlsx-bytes-depend-on-wall-clock', msg='Excel_PairTabulation.write() at virtual instants t and t+7200 s gives different bytes (%d vs %d; document properties and zip member time stamps)'
                         % (len(a), len(d)), detail={}))
    return dict(outcome='ok:clock' if not viol else 'violation', nontrivial=True, evals=4, violations=viol, states=['clock'], transitions=4, traces=1)


def run_hashseed_cli(case):
    viol = []
    rc, data, err = cli_run(case['seed'], **case.get('env', {}))
    rrc, rdata, _e = _CLI['ref']
    if rrc != 0 or not rdata:
        viol.append(dict(sig='harness:cli-reference-failed', msg='reference potable run failed: %r %s' % (rrc, _e), detail={}))
    elif (rc, data) != (rrc, rdata):
        viol.append(dict(sig='cli-output-depends-on-hash-seed', msg='potable %s under PYTHONHASHSEED=%s%s: exit %r, %s bytes; under seed 0: exit %r, %d bytes (first difference at %s)'
                         % (' '.join(CLI_ARGS), case['seed'], ' and %r' % case['env'] if case.get('env') else '', rc, len(data or ''), rrc, len(rdata), first_diff(data or '', rdata)), detail={}))
    return dict(outcome='ok:hashseed-cli' if not viol else 'violation', nontrivial=True, evals=1, violations=viol, states=['hashseed-cli'], transitions=1, traces=1)


REUSE_TARGETS = ['LAMMPS', 'DLPOLY', 'GULP', 'setfl', 'setfl_fs', 'DL_POLY_EAM', 'DL_POLY_EAM_fs', 'eam_adp']
REUSE_GRIDS = [(2.0, 8, 5.0, 4), (6.5, 12, 20.0, 7)]


def memo(f):
    """a memoised expensive function: the 0-d numpy array computed for a separation is kept and handed out again"""
    import numpy
    cache = {}

    def g(x):
        if x not in cache:
            cache[x] = numpy.array(f(x))
        return cache[x]
    return g


def reuse_objects():
    import atsim.potentials as ap
    from atsim.potentials import potentialforms as pf
    import math
    table = ap.TableReader(io.StringIO(''.join('%r %r\n' % (0.25 * k, 3.0 * math.exp(-0.5 * k) - 0.1 * k) for k in range(40))))      # legacy tabulated input
    pots = [ap.Potential('A', 'A', table), ap.Potential('B', 'A', ap.plus(pf.morse(1.8, 2.0, 0.6), pf.polynomial(1.0, -1.0, 0.25))),
            ap.Potential('B', 'B', memo(lambda r: 3.0 / (1.0 + r)))]
    dens = {'A': pf.exp_spline(0.7, -0.9, 0.01, 0, 0, 0, 0), 'B': pf.exp_spline(0.9, -1.0, 0.02, 0, 0, 0, 0.05)}
    dfs = {'A': {'A': dens['A'], 'B': pf.exp_spline(0.2, -1.1, 0.02, 0, 0, 0, 0)}, 'B': {'A': pf.exp_spline(0.3, -1.1, 0.02, 0, 0, 0, 0), 'B': dens['B']}}
    emb = {'A': pf.polynomial(0.1, -1.0, 0.01), 'B': lambda rho: -math.sqrt(rho + 1.0)}
    eam = [ap.EAMPotential(x, z, m_, emb[x], dens[x], 2.5, 'fcc') for x, z, m_ in (('A', 1, 1.5), ('B', 2, 4.5))]
    eamfs = [ap.EAMPotential(x, z, m_, emb[x], dfs[x], 2.5, 'fcc') for x, z, m_ in (('A', 1, 1.5), ('B', 2, 4.5))]
    dip = [ap.Potential('A', 'B', pf.polynomial(0.5, -0.2, 0.01))]
    quad = [ap.Potential('B', 'B', pf.morse(0.75, 1.3, 0.2))]
    return dict(pots=pots, eam=eam, eamfs=eamfs, dip=dip, quad=quad)


def reuse_write(objs, target, grid):
    from atsim.potentials import pair_tabulation as PT, eam_tabulation as ET
    cutoff, nr, crho, nrho = REUSE_GRIDS[grid]
    fp = io.StringIO()
    if target in ('LAMMPS', 'DLPOLY', 'GULP'):
        cls = {'LAMMPS': PT.LAMMPS_PairTabulation, 'DLPOLY': PT.DLPoly_PairTabulation, 'GULP': PT.GULP_PairTabulation}[target]
        cls(objs['pots'], cutoff, nr).write(fp)
    elif target == 'eam_adp':
        ET.ADP_EAMTabulation(objs['pots'], objs['eam'], objs['dip'], objs['quad'], cutoff, nr, crho, nrho).write(fp)
    else:
        cls = getattr(ET, {'setfl': 'SetFL_EAMTabulation', 'setfl_fs': 'SetFL_FS_EAMTabulation', 'DL_POLY_EAM': 'TABEAM_EAMTabulation', 'DL_POLY_EAM_fs': 'TABEAM_FinnisSinclair_EAMTabulation'}[target])
        cls(objs['pots'], objs['eamfs' if target.endswith('_fs') else 'eam'], cutoff, nr, crho, nrho).write(fp)
    return fp.getvalue()


class _Point(object):
    """a scheduling point in front of every evaluation of a model function"""
    def __init__(self, f, sched, tid):
        self.f, self.sched, self.tid = f, sched, tid

    def __call__(self, x):
        self.sched.point(self.tid)
        return self.f(x)


class _Sched(object):
    """cooperative two-thread scheduler: exactly one thread runs at any time; control changes hands only at scheduling points
    (A -> B at A's i-th point, B -> A at B's j-th point) and when a thread ends"""
    def __init__(self, i, j):
        import threading
        self.i, self.j = i, j
        self.count = [0, 0]
        self.phase = 0
        self.sem = [threading.Semaphore(0), threading.Semaphore(0)]
        self.done = [False, False]
        self.trace = []

    def point(self, tid):
        self.count[tid] += 1
        self.trace.append(tid)
        if tid == 0 and self.phase == 0 and self.count[0] == self.i:
            self.phase = 1
            self.sem[1].release()
            self.sem[0].acquire()
        elif tid == 1 and self.phase == 1 and self.count[1] == self.j and not self.done[0]:
            self.phase = 2
            self.sem[0].release()
            self.sem[1].acquire()

    def finished(self, tid):
        self.done[tid] = True
        self.sem[1 - tid].release()


def thread_objects(variant, wrap=None):
    """objects of thread `variant` (0 / 1): same shapes, different numbers; wrap(f) puts a scheduling point in front of every function"""
    import atsim.potentials as ap
    import math
    w = wrap or (lambda f: f)
    c = 1.0 + 0.5 * variant
    pots = [ap.Potential('A', 'A', w(lambda r: c * 2.0 * math.exp(-r))), ap.Potential('B', 'A', w(lambda r: c + 0.5 * r * r)), ap.Potential('B', 'B', w(lambda r: 3.0 * c / (1.0 + r)))]
    dens = {'A': w(lambda r: 0.5 * c * math.exp(-0.7 * r)), 'B': w(lambda r: 0.8 * c * math.exp(-0.7 * r))}
    dfs = {'A': {'A': w(lambda r: 0.3 * c * math.exp(-r)), 'B': w(lambda r: 0.7 * c / (1 + r))}, 'B': {'A': w(lambda r: 0.2 * c * math.exp(-r)), 'B': w(lambda r: 0.9 * c / (1 + r))}}
    emb = {'A': w(lambda rho: -c * math.sqrt(rho + 1.0)), 'B': w(lambda rho: 0.1 * c * rho * rho - rho)}
    eam = [ap.EAMPotential(x, z, m_, emb[x], dens[x], 2.5, 'fcc') for x, z, m_ in (('A', 1, 1.5), ('B', 2, 4.5))]
    eamfs = [ap.EAMPotential(x, z, m_, emb[x], dfs[x], 2.5, 'fcc') for x, z, m_ in (('A', 1, 1.5), ('B', 2, 4.5))]
    dip = [ap.Potential('A', 'B', w(lambda r: 0.5 * c - 0.1 * r))]
    quad = [ap.Potential('B', 'B', w(lambda r: 0.75 * c * math.exp(-r)))]
    return dict(pots=pots, eam=eam, eamfs=eamfs, dip=dip, quad=quad)


_THREAD_REF = {}


def thread_ref(target, variant):
    """(sequential output, number of evaluations) of thread `variant` writing `target`"""
    if (target, variant) not in _THREAD_REF:
        n = [0]

        def w(f):
            def g(x):
                n[0] += 1
                return f(x)
            return g
        _THREAD_REF[(target, variant)] = (reuse_write(thread_objects(variant, w), target, 0), n[0])
    return _THREAD_REF[(target, variant)]


def thread_evals(target, variant):
    return thread_ref(target, variant)[1]


def run_stdout_alias(case):
    import tempfile
    name = case['model']
    d = tempfile.mkdtemp(dir=R.scratch())
    cfg = os.path.join(d, 'm.aspot')
    with open(cfg, 'w') as f:
        f.write(MODELS[name][0])
    rc, so, se = seams.fresh_process([os.path.join(boot.VERIF, 'tools', 'potable_main.py'), cfg, '/dev/stdout'], hashseed='0')
    want = refs()[name]['bytes']
    got = so.decode('utf-8', 'replace')
    viol = []
    if rc != 0 or got != want:
        viol.append(dict(sig='piped-output-differs-from-file-output', msg='potable %s /dev/stdout (exit %r): the pipe received %d bytes, the table written to a file has %d bytes (first difference at %d: %r)'
                         % (name, rc, len(got), len(want), first_diff(got, want), got[max(0, first_diff(got, want) - 20):first_diff(got, want) + 60]), detail={}))
    return dict(outcome='ok:stdout-alias' if not viol else 'violation', nontrivial=True, evals=1, violations=viol, states=['stdout-alias'], transitions=1, traces=1)


def run_threads(case):
    import threading
    sched = _Sched(case['i'], case['j'])
    out = [None, None]
    err = [None, None]

    def body(tid, target):
        try:
            if tid == 1:
                sched.sem[1].acquire()
            objs = thread_objects(tid, lambda f: _Point(f, sched, tid))
            out[tid] = reuse_write(objs, target, 0)
        except BaseException as e:  # noqa
            err[tid] = e
        finally:
            sched.finished(tid)
    ths = [threading.Thread(target=body, args=(0, case['a'])), threading.Thread(target=body, args=(1, case['b']))]
    for t in ths:
        t.daemon = True
        t.start()
    for t in ths:
        t.join(60)
    viol = []
    if any(t.is_alive() for t in ths):
        viol.append(dict(sig='threads-deadlock', msg='schedule (i=%d, j=%d) of %s | %s did not terminate' % (case['i'], case['j'], case['a'], case['b']), detail={}))
    for tid, tgt in ((0, case['a']), (1, case['b'])):
        ref, _n = thread_ref(tgt, tid)
        if err[tid] is not None:
            viol.append(dict(sig='threads-exception:%s' % type(err[tid]).__name__, msg='thread %d (%s), schedule (i=%d, j=%d): %s: %s' % (tid, tgt, case['i'], case['j'], type(err[tid]).__name__, err[tid]), detail={}))
        elif out[tid] != ref and not viol:
            viol.append(dict(sig='output-depends-on-concurrent-tabulation', msg='threads writing %s and %s; A pre-empted at its evaluation %d, B at its evaluation %d: the %s table of thread %d differs from its sequential output (first difference at %d)'
                             % (case['a'], case['b'], case['i'], case['j'], tgt, tid, first_diff(out[tid] or '', ref)), detail={}))
    return dict(outcome='ok:threads' if not viol else 'violation', nontrivial=True, evals=len(sched.trace), violations=viol,
                states=['threads:%s|%s' % (case['a'], case['b'])], transitions=len(sched.trace), traces=1)


def reuse_tab(objs, target, grid):
    """the tabulation object of reuse_write (so that one object can be written from two threads)"""
    from atsim.potentials import pair_tabulation as PT, eam_tabulation as ET
    cutoff, nr, crho, nrho = REUSE_GRIDS[grid]
    if target in ('LAMMPS', 'DLPOLY', 'GULP'):
        cls = {'LAMMPS': PT.LAMMPS_PairTabulation, 'DLPOLY': PT.DLPoly_PairTabulation, 'GULP': PT.GULP_PairTabulation}[target]
        return cls(objs['pots'], cutoff, nr)
    if target == 'eam_adp':
        return ET.ADP_EAMTabulation(objs['pots'], objs['eam'], objs['dip'], objs['quad'], cutoff, nr, crho, nrho)
    cls = getattr(ET, {'setfl': 'SetFL_EAMTabulation', 'setfl_fs': 'SetFL_FS_EAMTabulation', 'DL_POLY_EAM': 'TABEAM_EAMTabulation', 'DL_POLY_EAM_fs': 'TABEAM_FinnisSinclair_EAMTabulation'}[target])
    return cls(objs['pots'], objs['eamfs' if target.endswith('_fs') else 'eam'], cutoff, nr, crho, nrho)


class _LineSched(object):
    """pre-empts the traced thread in front of its n-th line event inside the library; the other thread then runs to completion"""
    def __init__(self, n):
        import threading
        self.n, self.count = n, 0
        self.a, self.b = threading.Semaphore(0), threading.Semaphore(0)
        self.prefix = os.path.join(boot.REPO, 'atsim') + os.sep
        self.switched = False

    def tracer(self, frame, event, arg):
        if event == 'call':
            return self.local if frame.f_code.co_filename.startswith(self.prefix) else None
        return None

    def local(self, frame, event, arg):
        if event == 'line':
            self.count += 1
            if self.count == self.n and not self.switched:
                self.switched = True
                self.b.release()
                self.a.acquire()
        return self.local


_LINES = {}


def thread_lines(target):
    """number of traced line events of thread A's write()"""
    if target not in _LINES:
        sc = _LineSched(-1)
        tab = reuse_tab(thread_objects(0), target, 0)
        fp = io.StringIO()
        sys.settrace(sc.tracer)
        try:
            tab.write(fp)
        finally:
            sys.settrace(None)
        _LINES[target] = sc.count
    return _LINES[target]


def run_threads_fine(case):
    import threading
    sc = _LineSched(case['n'])
    taba = reuse_tab(thread_objects(0), case['a'], 0)
    tabb = taba if case['same'] else reuse_tab(thread_objects(1), case['b'], 0)
    out, err = [None, None], [None, None]

    def body_a():
        fp = io.StringIO()
        sys.settrace(sc.tracer)
        try:
            taba.write(fp)
            out[0] = fp.getvalue()
        except BaseException as e:  # noqa
            err[0] = e
        finally:
            sys.settrace(None)
            if not sc.switched:
                sc.switched = True
                sc.b.release()

    def body_b():
        sc.b.acquire()
        fp = io.StringIO()
        try:
            tabb.write(fp)
            out[1] = fp.getvalue()
        except BaseException as e:  # noqa
            err[1] = e
        finally:
            sc.a.release()
    ths = [threading.Thread(target=body_a), threading.Thread(target=body_b)]
    for t in ths:
        t.daemon = True
        t.start()
    for t in ths:
        t.join(60)
    viol = []
    if any(t.is_alive() for t in ths):
        viol.append(dict(sig='threads-deadlock', msg='line schedule n=%d of %s | %s did not terminate' % (case['n'], case['a'], case['b']), detail={}))
    refs_ = [thread_ref(case['a'], 0)[0], thread_ref(case['a'], 0)[0] if case['same'] else thread_ref(case['b'], 1)[0]]
    for tid in (0, 1):
        if err[tid] is not None:
            viol.append(dict(sig='threads-exception:%s' % type(err[tid]).__name__, msg='thread %d, A pre-empted at library line event %d (%s | %s%s): %s: %s'
                             % (tid, case['n'], case['a'], case['b'], ', same object' if case['same'] else '', type(err[tid]).__name__, err[tid]), detail={}))
        elif out[tid] != refs_[tid] and not viol:
            viol.append(dict(sig='output-depends-on-concurrent-tabulation', msg='thread A (%s) pre-empted at its library line event %d while thread B (%s%s) tabulates: the table of thread %d differs from its sequential output (first difference at %d)'
                             % (case['a'], case['n'], case['b'], ', the same tabulation object' if case['same'] else '', tid, first_diff(out[tid] or '', refs_[tid])), detail={}))
    return dict(outcome='ok:threads-fine' if not viol else 'violation', nontrivial=True, evals=sc.count, violations=viol,
                states=['threads-fine:%s|%s|%s' % (case['a'], case['b'], case['same'])], transitions=2, traces=1)


_REUSE_REF = {}


def run_api_reuse(case):
    objs = reuse_objects()
    viol = []
    for i, (t, g) in enumerate(case['seq']):
        if (t, g) not in _REUSE_REF:
            _REUSE_REF[(t, g)] = reuse_write(reuse_objects(), t, g)
        got = reuse_write(objs, t, g)
        if got != _REUSE_REF[(t, g)]:
            viol.append(dict(sig='output-depends-on-earlier-use-of-the-objects', msg='the same Potential / EAMPotential objects tabulated as %r: step %d (%s, grid %r) differs from the table written from fresh objects (first difference at %d)'
                             % (case['seq'], i, t, REUSE_GRIDS[g], first_diff(got, _REUSE_REF[(t, g)])), detail={}))
            break
    return dict(outcome='ok:api-reuse' if not viol else 'violation', nontrivial=True, evals=len(case['seq']), violations=viol, states=['api-reuse:%s' % ','.join('%s%d' % (t, g) for t, g in case['seq'][:-1])],
                transitions=len(case['seq']), traces=1)


_OUT_REF = {}


def sized(name, big):
    text = MODELS[name][0]
    if big:
        text = text.replace('nr : 5', 'nr : 41').replace('nr : 4\n', 'nr : 40\n')
    return text


def run_outfile(case):
    viol = []
    content = None
    for name, big in case['seq']:
        binary = name == 'excelP'
        res = R.potable(sized(name, big), binary=binary, prefill=content)
        if res.exc is not None:
            raise res.exc
        content = res.out_bytes
        if binary:
            continue
        if (name, big) not in _OUT_REF:
            r0 = R.potable(sized(name, big))
            _OUT_REF[(name, big)] = r0.out_bytes
        want = _OUT_REF[(name, big)]
        if res.status != 0 or content != want:
            viol.append(dict(sig='output-file-depends-on-its-previous-content', msg='potable runs %r into the same OUTPUT_FILE: after the last run the file has %s bytes, a run into a new file gives %d bytes (first difference at %s)'
                             % (case['seq'], len(content or ''), len(want), first_diff(content or '', want)), detail={}))
            break
    return dict(outcome='ok:outfile:%d' % len(case['seq']) if not viol else 'violation', nontrivial=True, evals=len(case['seq']), violations=viol,
                states=['outfile:%s' % ','.join('%s%d' % (n, b) for n, b in case['seq'][:-1])], transitions=len(case['seq']), traces=1)


def run_case(case):
    if case['kind'] == 'outfile':
        return run_outfile(case)
    if case['kind'] == 'api-reuse':
        return run_api_reuse(case)
    if case['kind'] == 'threads':
        return run_threads(case)
    if case['kind'] == 'threads-fine':
        return run_threads_fine(case)
    if case['kind'] == 'stdout-alias':
        return run_stdout_alias(case)
    if case['kind'] == 'api-share':
        from . import C07
        res = C07.run_shared(case)
        res.update(states=['api-share'], transitions=3, traces=1)
        return res
    if case['kind'] == 'hashseed-cli':
        return run_hashseed_cli(case)
    return dict(history=run_history, setorder=run_setorder, hashseed=run_hashseed, clock=run_clock, procenv=run_procenv)[case['kind']](case)
