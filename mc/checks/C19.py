"""C19 - GULP, ADP, funcfl and Excel targets carry the same functions on the same grids."""
import io, itertools

from .. import models as M, pairkit as PK, eamkit as EK, routes as R
from ..refmodel import expr as X
from ..readers import pair as RP, eam as RE
from ..readers.pair import FormatError
from . import C03

PROPERTY = 'C19'
LEVEL = 'exploration'
RULE = ('cases = {GULP, excel} x pair-model space of C01 (potentials regular at r=0) x 4 routes + (cutoff, nr) lattice sweep; eam_adp x EAM '
        'models (ordered element subsets, every subset of pair / dipole / quadrupole pairs with orientations, grids) x 3 routes; '
        'excel_eam / excel_eam_fs x EAM / FS models x routes; writeFuncFL x 1-element models x grids; every case executed; '
        'non-trivial = every case with >= 2 rows and >= 1 non-zero function')
RULE += '; pair space extensions of C01 (objects only for GULP; numpy 0-d returning callables also in the workbooks); ADP: density-only species with dipoles, dipole / quadrupole lists whose functions all involve species outside the file, label / foreign-pair models; funcfl with attractive pair potentials (refused or faithful); labels Li / Li+ / O* (a prefix followed by a character sorting below the hyphen); EAM workbooks of models that also hold pair potentials of species without many-body functions (their columns belong in the Pair sheet)'
ASSUMPTIONS = [
    'GULP: "spline cubic" / "A B cutoff" / nr rows "energy separation"; ADP: setfl followed by u then w blocks for (i, j<=i), unscaled',
    'funcfl: Z(r) column squared * 27.2 * 0.529 / r is the pair potential (conversion constants as documented in the writer)',
    'Excel cells are read back with openpyxl and compared as floats (1e-12 relative)',
    'reference closed forms as in C01/C03',
]
BOUNDS = {'quick': 'GULP/excel: quick pair space of C01; ADP: elements <= 2 all subsets, 3 elements structured; funcfl: 4 elements x 25 grids',
          'thorough': 'thorough pair space; ADP: elements <= 3 all pair subsets with rotating dipole/quadrupole subsets'}


def cases(tier):
    out = []
    for tgt in ('GULP', 'excel'):
        for c in PK.pair_cases(tier, from_zero=True, api_labels=False):
            if tgt == 'excel':
                if any(n.startswith('obj_') for _a, _b, n in c['pots']):
                    continue      # the workbook is documented to be built from potentialFunction, which these objects do not define / override
                if c.get('sweep') and (c['nr'] > 130 or (tier == 'quick' and hash((c['cutoff'], c['nr'])) % 4)):
                    continue
                keys = [tuple(sorted((a, b))) for a, b, _n in c['pots']]
                if len(set(keys)) != len(keys):
                    continue
                if c.get('pre_fail'):
                    continue
            out.append(dict(kind=tgt, **c))
    # ---- eam_adp, excel_eam
    G = EK.grids(tier)
    k = 0
    sizes = (1, 2, 3)
    for els in EK.ordered_subsets(EK.UNIVERSE, sizes):
        up = EK.unordered_pairs(els)
        nsub = 1 << len(up)
        masks = range(nsub) if (len(els) < 3 or tier != 'quick') else range(0, nsub, 7)
        for mask in masks:
            k += 1
            pairs = EK.orient([p for i, p in enumerate(up) if (mask >> i) & 1], k % 3)
            dmask = (mask * 5 + k) % nsub
            qmask = (mask * 3 + 2 * k + 1) % nsub
            dip = EK.orient([p for i, p in enumerate(up) if (dmask >> i) & 1], (k + 1) % 3)
            quad = EK.orient([p for i, p in enumerate(up) if (qmask >> i) & 1], (k + 2) % 3)
            if k % 2:
                dip, quad = dip[::-1], quad[::-1]
            nr, nrho = G[k % len(G)]
            cutoff, cutoff_rho = EK.CUTS[k % len(EK.CUTS)]
            m = dict(fs=False, embed=list(els), dens=list(els) if k % 3 else list(reversed(els)), pairs=[list(p) for p in pairs],
                     dip=[list(p) for p in dip], quad=[list(p) for p in quad], species=('builtin', 'override')[k % 2],
                     nr=nr, cutoff=cutoff, nrho=nrho, cutoff_rho=cutoff_rho)
            for route in (('cls', 'cfg', 'potable') if tier != 'quick' else (('cls', 'cfg', 'potable')[k % 3],)):
                out.append(dict(kind='adp', m=m, route=route))
            m2 = {kk: v for kk, v in m.items() if kk not in ('dip', 'quad')}
            out.append(dict(kind='excel_eam', m=m2, route=('cls', 'cfg', 'potable')[(k + 1) % 3]))
            # Finnis-Sinclair workbook
            allp = ['%s->%s' % (a, b) for a in els for b in els]
            dens = [p for i, p in enumerate(allp) if ((mask * 2654435761 + k) >> i) & 1]
            m3 = dict(m2, fs=True, dens=dens, embed=list(els))
            out.append(dict(kind='excel_eam_fs', m=m3, route=('cls', 'cfg', 'potable')[(k + 2) % 3]))
    for m in EK.big_models(False, tier):
        up = EK.unordered_pairs(m['embed'])
        m2 = dict(m, dip=[list(p) for p in EK.orient(up[::2], 1)], quad=[list(p) for p in EK.orient(up[1::3], 2)])
        for route in ('cls', 'cfg', 'potable'):
            out.append(dict(kind='adp', m=m2, route=route))
        out.append(dict(kind='excel_eam', m=m, route='cfg'))
    for m in EK.big_models(True, tier)[::3]:
        out.append(dict(kind='excel_eam_fs', m=m, route='potable'))
    for fs in (False, True):
        for i, m in enumerate(EK.label_models(fs, tier)):
            if m.get('foreign'):
                out.append(dict(kind='excel_eam_fs' if fs else 'excel_eam', m=m, route=('cls', 'cfg', 'potable')[i % 3]))
    for fs in (False, True):
        for m in EK.api_option_models(fs):
            if m.get('numpy_returns') or m.get('assign_after'):
                out.append(dict(kind='excel_eam_fs' if fs else 'excel_eam', m=m, route='cls'))
    # ADP: species that only have a density (null embedding) but do have dipole / quadrupole functions; dipole or quadrupole lists
    # in which EVERY function involves a species that is not in the file (left over from a larger model / removed by a species filter)
    for i, els in enumerate(EK.ordered_subsets(EK.UNIVERSE[:3], (2, 3))):
        a_, z_ = els[0], els[-1]
        nr, nrho = G[i % len(G)]
        base = dict(fs=False, embed=list(els[:1]), dens=list(els), pairs=[[a_, z_]], species='builtin', nr=nr, cutoff=2.5, nrho=nrho, cutoff_rho=50.0)
        out.append(dict(kind='adp', m=dict(base, dip=[[z_, a_], [z_, z_]], quad=[[z_, z_], [a_, z_]]), route=('cfg', 'potable')[i % 2]))
        # the quadrupole section written before the dipole section
        out.append(dict(kind='adp', m=dict(base, embed=list(els), dip=[[a_, a_], [z_, a_]], quad=[[z_, z_]], adp_order='quad-first'), route=('cfg', 'potable')[(i + 1) % 2]))
        full = dict(base, embed=list(els))
        for j, (dip, quad) in enumerate(((([['Mg', 'O'], [a_, 'O']]), [[a_, z_]]), ([[a_, a_]], [['O', 'O'], ['Mg', z_]]), ([['O', z_]], [['Mg', 'Mg']]))):
            out.append(dict(kind='adp', m=dict(full, dip=dip, quad=quad), route=('cls', 'cfg', 'potable')[(i + j) % 3]))
    for i, m in enumerate(EK.label_models(False, tier)):
        up = EK.unordered_pairs(m['embed'])
        m2 = dict(m, dip=[list(p) for p in EK.orient(up[::2], 1)], quad=[list(p) for p in EK.orient(up[1::2], 2)])
        out.append(dict(kind='adp', m=m2, route=('cls', 'cfg', 'potable')[i % 3]))
    # ---- funcfl
    gl = [(2, 2), (3, 5), (5, 3), (6, 6), (11, 10), (10, 11), (101, 50), (16, 1001)]
    steps = [(0.5, 0.1), (0.01, 0.05), (1.0, 0.3), (0.1, 0.072)]
    for el in EK.UNIVERSE:
        for gi, (nrho, nr) in enumerate(gl):
            for si, (drho, dr) in enumerate(steps):
                if tier == 'quick' and (gi + si) % 2:
                    continue
                if nr * dr > 12.0 or nrho * drho > 120.0:
                    continue          # the harness's test functions (exp of a quadratic) overflow far outside the physical range
                out.append(dict(kind='funcfl', el=el, nrho=nrho, drho=drho, nr=nr, dr=dr))
    # a pair potential with an attractive well cannot be written as an effective charge: refused, or faithful - never silently altered
    for el in EK.UNIVERSE[:2]:
        for nr, dr in ((12, 0.3), (60, 0.1)):
            out.append(dict(kind='funcfl', el=el, nrho=5, drho=0.5, nr=nr, dr=dr, attractive=True))
    return out


def V(viol, sig, msg):
    viol.append(dict(sig=sig, msg=msg, detail={}))


# --------------------------------------------------------------------------------------------- GULP
def run_gulp(case):
    viol = []
    PK.FORCE_CFG[0] = True
    text = PK.produce(case, 'GULP')
    try:
        blocks = RP.read_gulp(text)
    except FormatError as e:
        V(viol, 'format-error', 'unreadable GULP table: %s' % e)
        return viol, 1
    cutoff, nr, pots, route = case['cutoff'], case['nr'], case['pots'], case['route']
    if len(blocks) != len(pots):
        V(viol, 'gulp-block-count', '%d spline blocks for %d potentials' % (len(blocks), len(pots)))
        return viol, 1
    n = 0
    for (a, b, name), blk in zip(pots, blocks):
        if (blk['a'], blk['b']) not in ((a, b), (b, a)):
            V(viol, 'gulp-labels', 'block headed %s %s, expected %s %s' % (blk['a'], blk['b'], a, b))
        if abs(blk['cutoff'] - cutoff) > 1e-12 * cutoff:
            V(viol, 'gulp-cutoff', 'block header cutoff %r, expected %r' % (blk['cutoff'], cutoff))
        if len(blk['rows']) != nr:
            V(viol, 'gulp-row-count', '%s-%s: %d rows, expected nr=%d' % (a, b, len(blk['rows']), nr))
            continue
        fn, _num, _d2 = PK.ref(name, route)
        for i, (E, r, (uE, ur)) in enumerate(blk['rows']):
            rr = i * cutoff / (nr - 1)
            n += 1
            if abs(r - rr) > ur + 1e-9 * rr:
                V(viol, 'gulp-r', '%s-%s row %d: separation %r, expected %r' % (a, b, i, r, rr))
                break
            if PK.ill_conditioned(name, route, rr):
                continue
            j = fn(rr)
            if abs(E - j.v) > uE + 1e-9 * abs(j.v) + abs(j.d1) * 8 * M.EPS * rr:
                V(viol, 'gulp-energy', '%s-%s (%s) row %d r=%r: energy %r, reference %r' % (a, b, name, i, rr, E, j.v))
                break
    return viol, n


# --------------------------------------------------------------------------------------------- Excel helpers
def check_sheet(viol, wb, sheet, first, grid, columns, tag, rel=1e-11):
    """columns: {label: function x -> value}; grid: list of x"""
    if sheet not in wb:
        V(viol, 'excel-sheet-missing', 'no sheet %r: %r' % (sheet, wb['__order__']))
        return 0
    head, rows = wb[sheet]
    if not head or head[0] != first:
        V(viol, 'excel-first-column', 'sheet %s: first column headed %r, expected %r' % (sheet, head[:1], first))
        return 0
    labels = [h for h in head[1:] if h is not None]
    if sorted(labels) != sorted(columns) or len(set(labels)) != len(labels):
        V(viol, 'excel-columns', 'sheet %s: columns %r, expected one column for each of %r' % (sheet, labels, sorted(columns)))
        return 0
    rows = [r for r in rows if any(c is not None for c in r)]
    if len(rows) != len(grid):
        V(viol, 'excel-row-count', 'sheet %s: %d rows, expected %d' % (sheet, len(rows), len(grid)))
        return 0
    n = 0
    for i, (x, row) in enumerate(zip(grid, rows)):
        if row[0] is None or abs(row[0] - x) > 1e-12 * abs(x) + 1e-300:
            V(viol, 'excel-grid', 'sheet %s row %d: %s=%r, expected %r' % (sheet, i, first, row[0], x))
            return n
    for lab in labels:
        ci = head.index(lab)
        f = columns[lab]
        for i, (x, row) in enumerate(zip(grid, rows)):
            n += 1
            ref = f(x)
            if ref is None:
                continue
            v = row[ci]
            if v is None or abs(v - ref) > rel * abs(ref) + (1e-9 if rel > 1e-9 else 1e-300):
                V(viol, 'excel-value:' + tag, 'sheet %s column %s row %d (%s=%r): %r, reference %r' % (sheet, lab, i, first, x, v, ref))
                break
    return n


def run_excel(case):
    viol = []
    PK.FORCE_CFG[0] = True
    data = PK.produce(case, 'excel')
    try:
        wb = RE.read_xlsx(data)
    except Exception as e:  # noqa
        V(viol, 'format-error', 'unreadable xlsx: %s: %s' % (type(e).__name__, e))
        return viol, 1
    cutoff, nr, route = case['cutoff'], case['nr'], case['route']
    grid = [i * cutoff / (nr - 1) for i in range(nr)]
    cols = {}
    for a, b, name in case['pots']:
        fn, _n, _d = PK.ref(name, route)
        cols['%s-%s' % tuple(sorted((a, b)))] = (lambda fn, name: lambda x: None if PK.ill_conditioned(name, route, x) else fn(x).v)(fn, name)
    # splined entries come out of a 6x6 / 10x10 linear solve: full float agreement with the independent solver cannot be demanded
    loose = any(n_ in ('spline_exp', 'spline_buck4', 'buck4') for _a, _b, n_ in case['pots'])
    n = check_sheet(viol, wb, 'Pair', 'r', grid, cols, 'pair', rel=1e-7 if loose else 1e-11)
    return viol, n


def run_excel_eam(case):
    viol = []
    m, route = case['m'], case['route']
    tgt = case['kind']
    data = EK.produce(m, tgt, route)
    try:
        wb = RE.read_xlsx(data)
    except Exception as e:  # noqa
        V(viol, 'format-error', 'unreadable xlsx: %s: %s' % (type(e).__name__, e))
        return viol, 1
    ref = EK.ref_functions(m, EK.semantics(route))
    els = EK.model_elements(m)
    rg = [i * m['cutoff'] / (m['nr'] - 1) for i in range(m['nr'])]
    rhog = [i * m['cutoff_rho'] / (m['nrho'] - 1) for i in range(m['nrho'])]
    n = 0
    pc = {}
    for a, b in m['pairs']:
        pc['%s-%s' % tuple(sorted((a, b)))] = (lambda f: lambda x: f(x).v)(ref['phi'](a, b))
    # pair potentials of species without many-body functions (the oxide part of a metal / oxide model) have their columns too: the workbook holds every potential of the model
    for a, b in m.get('foreign', []):
        pc['%s-%s' % tuple(sorted((a, b)))] = (lambda f: lambda x: f(x).v)(ref['phi'](a, b, 'foreign'))
    n += check_sheet(viol, wb, 'Pair', 'r', rg, pc, 'pair')
    if m['fs']:
        dc = {'%s->%s' % (a, b): (lambda f: lambda x: f(x).v)(ref['rho'][(a, b)]) for a in els for b in els}
    else:
        dc = {e: (lambda f: lambda x: f(x).v)(ref['rho'][e]) for e in els}
    n += check_sheet(viol, wb, 'EAM-Density', 'r', rg, dc, 'density')
    ec = {e: (lambda f: lambda x: f(x).v)(ref['F'][e]) for e in els}
    n += check_sheet(viol, wb, 'EAM-Embed', 'rho', rhog, ec, 'embed')
    return viol, n


# --------------------------------------------------------------------------------------------- ADP
def run_adp(case):
    m, route = case['m'], case['route']
    text = EK.produce(m, 'eam_adp', route)
    viol, t = C03.check_setfl(m, route, text, kind='adp')
    if t is None or any(v['sig'] in ('element-set', 'element-repeated', 'header-counts') for v in viol):
        return viol, 1
    # byte prefix equals the setfl file of the same model
    m2 = {k: v for k, v in m.items() if k not in ('dip', 'quad')}
    setfl = EK.produce(m2, 'setfl', route)
    if not text.startswith(setfl):
        V(viol, 'adp-prefix', 'the ADP file does not start with the setfl file of the same model')
    ref = EK.ref_functions(m, EK.semantics(route))
    els = t['elements']
    dr = m['cutoff'] / (m['nr'] - 1)
    n = 0
    for key, fget in (('dipole', ref['u']), ('quadrupole', ref['w'])):
        for (i, j), vals in t[key].items():
            f = fget(els[i], els[j])
            for k, v in enumerate(vals):
                n += 1
                r = f(k * dr).v
                if not C03.close(v, r):
                    V(viol, 'adp-' + key, '%s block (%s,%s): value %d (r=%r) = %r, reference (unscaled) %r' % (key, els[i], els[j], k, k * dr, v, r))
                    break
    return viol, n


# --------------------------------------------------------------------------------------------- funcfl
def run_funcfl(case):
    import atsim.potentials as ap
    viol = []
    el = case['el']
    i = EK.idx(el)
    phi_d = EK.D(('>=', float('-inf'), EK.form('exp_spline', 0.3 + 0.1 * i, -0.8, 0.02, 0.0, 0.0, 0.0, 0.1)))   # positive
    if case.get('attractive'):
        phi_d = EK.D(('>=', float('-inf'), EK.form('morse', 1.8, 2.0, 0.35)))
    m = dict(fs=False, embed=[el], dens=[el], pairs=[], species='builtin')
    Z, mass, a, lat = EK.ref_meta(m, el, 'api')
    emb, dens = R.api_defn(EK.embed_defn(el)), R.api_defn(EK.dens_defn(el))
    eam = [ap.EAMPotential(el, Z, mass, emb, dens, 3.5 + i, ('fcc', 'bcc')[i % 2])]
    pots = [ap.Potential(el, el, R.api_defn(phi_d))]
    fp = io.StringIO()
    try:
        ap.writeFuncFL(case['nrho'], case['drho'], case['nr'], case['dr'], eam, pots, fp, title='title %s' % el)
    except ValueError:
        if not case.get('attractive'):
            raise
        if fp.getvalue():
            V(viol, 'funcfl-partial', 'writeFuncFL refused the attractive pair potential but had already written %d bytes' % len(fp.getvalue()))
        return viol, 1
    try:
        t = RE.read_funcfl(fp.getvalue())
    except FormatError as e:
        V(viol, 'format-error', 'unreadable funcfl: %s' % e)
        return viol, 1
    nrho, drho, nr, dr = case['nrho'], case['drho'], case['nr'], case['dr']
    if (t['Z'], t['lattice']) != (Z, ('fcc', 'bcc')[i % 2]) or abs(t['mass'] - mass) > 1e-6 or abs(t['a'] - (3.5 + i)) > 1e-6:
        V(viol, 'funcfl-metadata', 'header %r, expected %r' % ((t['Z'], t['mass'], t['a'], t['lattice']), (Z, mass, 3.5 + i)))
    if t['nrho'] != nrho or t['nr'] != nr or abs(t['drho'] - drho) > 1e-6 or abs(t['dr'] - dr) > 1e-6:
        V(viol, 'funcfl-grid', 'header grid (%d %r %d %r), tabulated (%d %r %d %r)' % (t['nrho'], t['drho'], t['nr'], t['dr'], nrho, drho, nr, dr))
        return viol, 1
    if abs(t['cutoff'] - (nr - 1) * dr) > 1e-6 + 1e-9 * nr * dr:
        V(viol, 'funcfl-cutoff', 'header cutoff %r, the grid tabulated ends at (nr-1)*dr=%r' % (t['cutoff'], (nr - 1) * dr))
    F = lambda x: X.ev_defn(R.apiize(EK.embed_defn(el)), x).v   # noqa
    rho = lambda x: X.ev_defn(R.apiize(EK.dens_defn(el)), x).v  # noqa
    phi = lambda x: X.ev_defn(phi_d, x).v                       # noqa
    for k, v in enumerate(t['embed']):
        if not C03.close(v, F(k * drho)):
            V(viol, 'funcfl-embed', 'F[%d] = %r, reference %r' % (k, v, F(k * drho)))
            break
    for k, v in enumerate(t['dens']):
        if not C03.close(v, rho(k * dr)):
            V(viol, 'funcfl-density', 'rho[%d] = %r, reference %r' % (k, v, rho(k * dr)))
            break
    for k, z in enumerate(t['zr']):
        r = k * dr
        if k == 0:
            if abs(z) > 1e-12:
                V(viol, 'funcfl-charge', 'Z(0) = %r, expected 0 (phi*r at r=0)' % z)
            continue
        back = z * z * 27.2 * 0.529 / r
        if abs(back - phi(r)) > 1e-9 * abs(phi(r)) + 1e-13:
            V(viol, 'funcfl-charge', 'Z[%d]^2*27.2*0.529/r = %r, pair potential %r' % (k, back, phi(r)))
            break
    return viol, nrho + 2 * nr


def run_case(case):
    kind = case['kind']
    try:
        if kind == 'GULP':
            viol, n = run_gulp(case)
        elif kind == 'excel':
            viol, n = run_excel(case)
        elif kind == 'adp':
            viol, n = run_adp(case)
        elif kind in ('excel_eam', 'excel_eam_fs'):
            viol, n = run_excel_eam(case)
        else:
            viol, n = run_funcfl(case)
    finally:
        PK.FORCE_CFG[0] = False
    return dict(outcome='ok:%s:%s' % (kind, case.get('route', 'api')) if not viol else 'violation', nontrivial=True, evals=max(1, n), violations=viol)
