"""C16 - malformed models give configuration errors; valid models are never rejected."""
import base64, io, os, glob, copy

from .. import routes as R, engine, boot
from ..initext import Ini

PROPERTY = 'C16'
LEVEL = 'exploration'
RULE = ('cases = (a) a catalogue of malformation operators (unknown target / form / modifier / interpolation / spline type; parameter count +-1 for '
        'every arity; non-numeric parameters; malformed pair and A->B keys; Finnis-Sinclair keys in a plain target and vice versa; missing sections; '
        'contradictory / non-numeric / non-positive / degenerate grid options; ill-formed spline, trans and table-form definitions; bad formula '
        'signatures and bodies; bad [Species] data; unresolvable placeholders; text that is not an INI file) applied at EVERY applicable position '
        'of 8 well-formed base models, each through Configuration.read + write and through potable main(); oracle: ConfigurationException subclass / '
        'exit status 2 with "configuration error - " and no non-empty output file; (b) the converse: the base models, every .aspot file shipped '
        'in docs/ and tests/, every target spelling and option value the reference manual lists must be accepted; non-trivial = every mutant')
RULE += '; further operators: malformed numbers (1000.0.3), argument lists broken after a comma, reserved / non-identifier parameter names, errors inside the block syntax, pymath argument counts, as.buck4 knot order, spline type written as a modifier, malformed formulas that no interaction uses, zero / non-finite grids; converse: tables wrapped over lines with odd value counts, 256..5000-point x / y tables, byte-order mark, CR LF, non-ASCII comments; undecodable bytes (latin-1, UTF-16, binary) must be configuration errors'
ASSUMPTIONS = [
    'the catalogue defines "structurally malformed": each operator produces input that no reading of the manual makes valid; debatable edits (e.g. pow() with one argument) are not in it',
    'formula errors may surface at the first evaluation: Configuration.read followed by write() is the observation',
    'single mutations only',
]
BOUNDS = {'quick': '8 base models x ~90 operators at every applicable position', 'thorough': 'same catalogue (complete) + every generated well-formed model of the other checks for the converse'}

TAB_EAM = [['nr', '4'], ['cutoff', '3.0'], ['nrho', '4'], ['cutoff_rho', '9.0']]
SPEC = [['A.atomic_number', '1'], ['A.atomic_mass', '1.25'], ['Qq.atomic_number', '2'], ['Qq.atomic_mass', '4.5']]   # neither label is a chemical element


def base_models():
    M = {}
    M['pair'] = Ini([['Tabulation', [['target', 'LAMMPS'], ['nr', '5'], ['cutoff', '4.0']]],
                     ['Pair', [['O-O', 'as.buck 1000.0 0.3 32.0'], ['U-O', 'cbuck 800.0 0.35'], ['U-U', 'sum(as.bornmayer 850.0 0.35, tf)'],
                               ['Th-O', '>=0 as.zbl 90 8 >1.0 as.lj 0.2 2.5'], ['Th-Th', 'spline(as.zbl 90 90 >=0.8 exp_spline >=1.4 as.buck 18003.0 0.3 32.0)'],
                               ['Th-U', 'spline(as.buck 1388.773 0.3623 0 >1.2 buck4_spline 2.1 >2.6 as.buck 0 1 175.0)'],
                               ['Pu-O', 'trans(as.morse 1.8 2.0 0.6, as.constant 0.5)'], ['Pu-Pu', 'pow(as.polynomial 3.0 2.0, as.constant 2)'],
                               ['Pu-U', 'product(as.constant 2.0, as.hbnd 120.0 35.0)']]],
                     ['Potential-Form', [['cbuck(r,A,rho)', 'A*exp(-r/rho) + helper(r, 2.0)'], ['helper(r,s)', 's/r^2 + pymath.exp(-r)']]],
                     ['Table-Form:tf', [['interpolation', 'cubic_spline'], ['x', '0 1 2 3 4 5'], ['y', '9 4 1 -1 -0.5 0']]],
                     ['Species', [['O.charge', '-2.0']]]])
    M['dlpoly'] = Ini([['Tabulation', [['target', 'DL_POLY'], ['nr', '8'], ['cutoff', '4.0']]],
                       ['Pair', [['O-O', 'as.buck 1000.0 0.3 32.0'], ['U-O', 'as.morse 1.8 2.0 0.6']]]])
    M['gulp'] = Ini([['Tabulation', [['target', 'GULP'], ['nr', '5'], ['dr', '0.5']]],
                     ['Pair', [['O-O', '>=0 as.polynomial 1.0 -2.0 0.5'], ['U-O', 'tf2']]],
                     ['Table-Form:tf2', [['xy', '0 2  1 3  2 7  3 2.5  4 1  5 0.5']]]])
    M['setfl'] = Ini([['Tabulation', [['target', 'setfl']] + TAB_EAM], ['Species', SPEC],
                      ['EAM-Embed', [['A', '>=0 as.polynomial 0.1 -1.0 0.01'], ['Qq', '>=0 as.polynomial 0.2 -1.3 0.02']]],
                      ['EAM-Density', [['A', '>=0 as.exp_spline 0.7 -0.9 0.01 0 0 0 0'], ['Qq', '>=0 as.exp_spline 0.9 -1.0 0.02 0 0 0 0.05']]],
                      ['Pair', [['A-Qq', '>=0 as.morse 1.3 2.05 0.35']]]])
    M['setfl_fs'] = Ini([['Tabulation', [['target', 'setfl_fs']] + TAB_EAM], ['Species', SPEC],
                         ['EAM-Embed', [['A', '>=0 as.polynomial 0.1 -1.0 0.01'], ['Qq', '>=0 as.polynomial 0.2 -1.3 0.02']]],
                         ['EAM-Density', [['A->Qq', '>=0 as.exp_spline 0.2 -1.1 0.02 0 0 0 0'], ['Qq->A', '>=0 as.exp_spline 0.3 -1.1 0.02 0 0 0 0']]],
                         ['Pair', [['A-A', '>=0 as.morse 1.2 2.0 0.3']]]])
    M['adp'] = Ini([['Tabulation', [['target', 'eam_adp']] + TAB_EAM], ['Species', SPEC],
                    ['EAM-Embed', [['A', '>=0 as.polynomial 0.1 -1.0 0.01']]],
                    ['EAM-Density', [['A', '>=0 as.exp_spline 0.7 -0.9 0.01 0 0 0 0']]],
                    ['Pair', [['A-A', '>=0 as.morse 1.2 2.0 0.3']]],
                    ['EAM-ADP-Dipole', [['A-A', '>=0 as.polynomial 0.5 -0.2 0.01']]],
                    ['EAM-ADP-Quadrupole', [['A-A', '>=0 as.morse 0.75 1.3 0.2']]]])
    M['tabeam'] = Ini([['Tabulation', [['target', 'DL_POLY_EAM']] + TAB_EAM],
                       ['EAM-Embed', [['Al', '>=0 as.polynomial 0.1 -1.0 0.01'], ['Cu', '>=0 as.polynomial 0.2 -1.3 0.02']]],
                       ['EAM-Density', [['Al', '>=0 as.exp_spline 0.7 -0.9 0.01 0 0 0 0'], ['Cu', '>=0 as.exp_spline 0.9 -1.0 0.02 0 0 0 0.05']]],
                       ['Pair', [['Al-Cu', '>=0 as.morse 1.3 2.05 0.35']]]])
    M['excel'] = Ini([['Tabulation', [['target', 'excel'], ['nr', '4'], ['cutoff', '3.0']]],
                      ['Pair', [['O-O', '>=0 as.polynomial 1.0 -2.0 0.5'], ['U-O', '>=0 as.morse 1.8 2.0 0.6']]]])
    return M


DEFN_SECTIONS = ('Pair', 'EAM-Embed', 'EAM-Density', 'EAM-ADP-Dipole', 'EAM-ADP-Quadrupole')
ARITY = {'as.buck': 3, 'as.bornmayer': 2, 'as.morse': 3, 'as.lj': 2, 'as.zbl': 2, 'as.hbnd': 2, 'as.constant': 1, 'as.polynomial': None, 'as.exp_spline': 7}


def mutants(name, ini):
    """yield (operator, mutated Ini | raw text)"""
    def setv(sec, key, val, op):
        d = ini.copy()
        for e in d.section(sec)[1]:
            if e[0] == key:
                e[1] = val
        return (op, d)

    def setk(sec, key, newkey, op):
        d = ini.copy()
        for e in d.section(sec)[1]:
            if e[0] == key:
                e[0] = newkey
        return (op, d)
    out = []
    tab = dict(ini.section('Tabulation')[1])
    target = tab['target']
    # ---------------------------------------------------------------- [Tabulation]
    for t in ('LAMMPSX', 'lammps', 'setfl_FS', 'DL_POLY_TABLE', ''):
        out.append(setv('Tabulation', 'target', t, 'unknown-target'))
    for key in [k for k in ('nr', 'cutoff', 'nrho', 'cutoff_rho', 'dr') if k in tab]:
        for v, op in (('abc', 'non-numeric-grid'), ('-1', 'non-positive-grid'), ('0', 'non-positive-grid'), ('', 'empty-grid-value')):
            out.append(setv('Tabulation', key, v, '%s:%s' % (op, key)))
    if 'nr' in tab:
        out.append(setv('Tabulation', 'nr', '3.5', 'non-integer-count:nr'))
        out.append(setv('Tabulation', 'nr', '1', 'degenerate-count:nr=1'))
        if target in ('LAMMPS',):
            out.append(setv('Tabulation', 'nr', '2', 'degenerate-count:nr=2'))
        if target in ('DL_POLY', 'DLPOLY'):
            out.append(setv('Tabulation', 'nr', '4', 'degenerate-count:dlpoly-nr=4'))
            for v in ('5', '6', '7', '9', '10'):
                out.append(setv('Tabulation', 'nr', v, 'dlpoly-nr-not-multiple-of-4'))
    if 'nrho' in tab:
        out.append(setv('Tabulation', 'nrho', '1', 'degenerate-count:nrho=1'))
        out.append(setv('Tabulation', 'nrho', '2.5', 'non-integer-count:nrho'))
    if 'cutoff' in tab and 'nr' in tab:
        d = ini.copy()
        d.section('Tabulation')[1].append(['dr', '0.5'])
        out.append(('contradictory-grid:all-three', d))
        d = ini.copy()
        d.section('Tabulation')[1][:] = [e for e in d.section('Tabulation')[1] if e[0] not in ('nr', 'cutoff')] + [['dr', '0.5']]
        out.append(('contradictory-grid:step-alone', d))
    if 'cutoff_rho' in tab:
        d = ini.copy()
        d.section('Tabulation')[1].append(['drho', '0.5'])
        out.append(('contradictory-grid:all-three-rho', d))
    # ---------------------------------------------------------------- missing sections
    for sec in ('Pair', 'EAM-Embed', 'EAM-Density', 'EAM-ADP-Dipole', 'EAM-ADP-Quadrupole'):
        if ini.section(sec):
            d = ini.copy()
            d.sections[:] = [s for s in d.sections if s[0] != sec]
            out.append(('missing-section:%s' % sec, d))
    # ---------------------------------------------------------------- keys
    for sec in DEFN_SECTIONS:
        s = ini.section(sec)
        if not s:
            continue
        for k, v in s[1]:
            if sec in ('Pair', 'EAM-ADP-Dipole', 'EAM-ADP-Quadrupole'):
                a, b = k.split('-')
                for nk, op in ((a + b, 'pair-key-no-hyphen'), ('%s-%s-%s' % (a, b, a), 'pair-key-two-hyphens'), ('%s-' % a, 'pair-key-empty-species')):
                    out.append(setk(sec, k, nk, '%s:%s' % (op, sec)))
            elif sec == 'EAM-Density':
                if '->' in k:
                    a, b = k.split('->')
                    out.append(setk(sec, k, '%s->%s->%s' % (a, b, a), 'fs-key-two-arrows'))
                    out.append(setk(sec, k, a, 'plain-density-key-in-fs-target'))
                    out.append(setk(sec, k, '%s-%s' % (a, b), 'fs-key-hyphen'))
                else:
                    out.append(setk(sec, k, '%s->%s' % (k, k), 'fs-key-in-plain-target'))
            # ------------------------------------------------------------ definitions
            for nv, op in (('', 'empty-definition'), ('as.nosuch 1.0 2.0', 'unknown-form'), ('nosuch 1.0', 'unknown-form'), ('nosuch(%s)' % v, 'unknown-modifier'),
                           ('sum(%s' % v, 'unbalanced-parenthesis'), ('%s)' % v, 'unbalanced-parenthesis'), ('>= %s' % v, 'range-marker-without-number'),
                           ('=> 1.0 %s' % v, 'bad-range-marker'), ('> abc %s' % v, 'bad-range-marker'), ('as.buck A 0.3 32.0', 'non-numeric-parameter'),
                           ('as.buck 1000.0 0.3', 'parameter-count:as.buck-1'), ('as.buck 1000.0 0.3 32.0 1.0', 'parameter-count:as.buck+1'),
                           ('as.zero 1.0', 'parameter-count:as.zero+1'), ('as.constant', 'parameter-count:as.constant-1'), ('as.constant 1.0 2.0', 'parameter-count:as.constant+1'),
                           ('as.morse 1.8 2.0', 'parameter-count:as.morse-1'), ('as.lj 0.2 2.5 1.0', 'parameter-count:as.lj+1'), ('as.exp_spline 1 2 3', 'parameter-count:as.exp_spline-4'),
                           ('as.buck4 1 2 3 4 5', 'parameter-count:as.buck4-1'), ('as.tang_toennies 1 2 3 4', 'parameter-count:as.tang_toennies-1'),
                           ('sum()', 'empty-modifier'), ('trans(as.morse 1.8 2.0 0.6)', 'trans-one-argument'),
                           ('trans(as.morse 1.8 2.0 0.6, as.constant 0.5, as.constant 1.0)', 'trans-three-arguments'),
                           ('trans(as.morse 1.8 2.0 0.6, as.morse 1.8 2.0 0.6)', 'trans-non-constant-shift'), ('trans(as.morse 1.8 2.0 0.6, sum(as.constant 0.5))', 'trans-modifier-shift'),
                           ('trans(as.morse 1.8 2.0 0.6, as.constant)', 'trans-constant-without-value'), ('trans(as.morse 1.8 2.0 0.6, as.constant 1 2)', 'trans-constant-two-values'),
                           ('spline(as.buck 1000.0 0.3 0)', 'spline-one-part'), ('spline(as.buck 1000.0 0.3 0 >1.0 exp_spline)', 'spline-two-parts'),
                           ('spline(as.buck 1000.0 0.3 0 >1.0 exp_spline >2.0 as.buck 0 1 3 >3.0 as.zero)', 'spline-four-parts'),
                           ('spline(as.buck 1000.0 0.3 0 >1.0 exp_spline 1.5 >2.0 as.buck 0 1 3)', 'spline-exp-with-parameter'),
                           ('spline(as.buck 1000.0 0.3 0 >1.0 buck4_spline >2.0 as.buck 0 1 3)', 'spline-buck4-without-rmin'),
                           ('spline(as.buck 1000.0 0.3 0 >1.0 buck4_spline 0.5 >2.0 as.buck 0 1 3)', 'spline-rmin-below-detach'),
                           ('spline(as.buck 1000.0 0.3 0 >1.0 buck4_spline 1.0 >2.0 as.buck 0 1 3)', 'spline-rmin-at-detach'),
                           ('spline(as.buck 1000.0 0.3 0 >1.0 buck4_spline 2.5 >2.0 as.buck 0 1 3)', 'spline-rmin-above-attach'),
                           ('spline(as.buck 1000.0 0.3 0 >1.0 nosuch_spline >2.0 as.buck 0 1 3)', 'spline-unknown-type'),
                           ('spline(as.buck 1000.0 0.3 0 >1.0 sum(as.zero) >2.0 as.buck 0 1 3)', 'spline-modifier-as-middle'),
                           ('spline(as.buck 1000.0 0.3 0 >2.0 exp_spline >1.0 as.buck 0 1 3)', 'spline-reversed-knots'),
                           ('spline(as.buck 1000.0 0.3 0 >1.0 exp_spline(as.zero) >2.0 as.buck 0 1 3)', 'spline-type-written-as-modifier'),
                           ('spline(as.buck 1000.0 0.3 0 >1.0 buck4_spline(as.constant 1.5) >2.0 as.buck 0 1 3)', 'spline-type-written-as-modifier'),
                           ('spline(as.buck 1000.0 0.3 0 >1.0 exp_spline >1.0 as.buck 0 1 3)', 'spline-equal-knots'),
                           ('spline(as.buck 1000.0 0.3 0 >1.0 exp_spline >2.0 as.buck 0 1 3, as.zero)', 'spline-two-arguments'),
                           # numbers with two decimal points / two exponents are typing errors, not two parameters
                           ('as.buck 1000.0.3 32.0', 'malformed-number'), ('as.polynomial 1.5.5 2.0', 'malformed-number'), ('as.buck 1000.0 0.3e1e2 32.0', 'malformed-number'),
                           ('as.buck 1000.0 0.3 32.0.', 'malformed-number'), ('>1..5 as.zero', 'malformed-number'),
                           # as.buck4 is documented shorthand for a buck4_spline: its knots obey the same rules
                           ('as.buck4 1000.0 0.3 32.0 1.0 1.0 2.0', 'buck4-rmin-at-detach'), ('as.buck4 1000.0 0.3 32.0 1.0 3.0 2.0', 'buck4-rmin-above-attach'),
                           ('as.buck4 1000.0 0.3 32.0 1.0 0.5 2.0', 'buck4-rmin-below-detach'), ('as.buck4 1000.0 0.3 32.0 2.0 1.5 1.0', 'buck4-reversed-knots'),
                           ('as.buck4 1000.0 0.3 32.0 1.0 1.5 1.0', 'buck4-equal-knots'),
                           # argument lists that break directly after a comma
                           ('trans(as.buck 1000.0 0.2 32, 2.0)', 'modifier-bare-number-argument'), ('pow(as.buck 1000.0 0.3 32.0, 2)', 'modifier-bare-number-argument'),
                           ('sum(as.buck 1000.0 0.3 32.0, )', 'modifier-trailing-comma'), ('sum(as.buck 1000.0 0.3 32.0,, as.zero)', 'modifier-doubled-comma'),
                           ('product(, as.zero)', 'modifier-leading-comma'), ('sum(as.zero, >)', 'modifier-argument-only-a-marker'),
                           ('sum(as.zero, sum(as.zero, ))', 'modifier-trailing-comma-nested'), ('sum(as.zero, ,)', 'modifier-only-commas')):
                out.append(setv(sec, k, nv, '%s:%s' % (op, sec)))
            if v.startswith('tf') or 'tf' in v.split(',')[-1]:
                out.append(setv(sec, k, v.replace('tf', 'tf 1.0', 1) if v.startswith('tf') else 'tf 1.0', 'table-form-with-parameter:%s' % sec))
    # ---------------------------------------------------------------- table forms
    for s in ini.sections:
        if not s[0].startswith('Table-Form:'):
            continue
        sec = s[0]
        ent = dict(s[1])
        def tf(new, op):  # noqa
            d = ini.copy()
            d.section(sec)[1][:] = [list(e) for e in new]
            out.append(('table:%s' % op, d))
        x, y = '0 1 2 3 4 5', '9 4 1 -1 -0.5 0'
        tf([['x', x]], 'missing-y')
        tf([['y', y]], 'missing-x')
        tf([], 'no-data')
        tf([['x', x], ['y', y], ['xy', '0 1 1 2 2 3 3 4']], 'xy-and-x-y')
        tf([['xy', '0 1 1 2 2 3 3']], 'odd-xy')
        tf([['x', '0 1 2 3 4'], ['y', y]], 'length-mismatch')
        tf([['x', '0 1 b 3 4 5'], ['y', y]], 'non-numeric-x')
        tf([['x', x], ['y', '9 4 1 c -0.5 0']], 'non-numeric-y')
        tf([['xy', '0 1 1 z 2 3 3 4']], 'non-numeric-xy')
        tf([['x', '0 1 nan 3 4 5'], ['y', y]], 'non-finite-x')
        tf([['x', x], ['y', '9 4 inf -1 -0.5 0']], 'non-finite-y')
        tf([['x', x], ['y', '9 4 1 NaN -0.5 0']], 'non-finite-y')
        tf([['xy', '0 1 1 nan 2 3 3 4']], 'non-finite-xy')
        tf([['x', '0 2 1 3 4 5'], ['y', y]], 'unsorted-x')
        tf([['x', '0 1 1 3 4 5'], ['y', y]], 'repeated-x')
        tf([['x', '0 1 2'], ['y', '3 2 1']], 'three-points')
        tf([['x', '1'], ['y', '3']], 'one-point')
        tf([['x', ''], ['y', '']], 'empty-data')
        tf([['interpolation', 'nosuch'], ['x', x], ['y', y]], 'unknown-interpolation')
    for hdr in ('Table-Form', 'Table-Form:'):
        if any(s[0].startswith('Table-Form:') for s in ini.sections):
            d = ini.copy()
            for s in d.sections:
                if s[0].startswith('Table-Form:'):
                    s[0] = hdr
            out.append(('table:unnamed-section', d))
    # ---------------------------------------------------------------- formulas
    pf = ini.section('Potential-Form')
    if pf:
        for k, v in pf[1]:
            label = k.split('(')[0]
            for nk, op in (('%s r,A' % label, 'formula-signature-no-parentheses'), ('1%s' % k, 'formula-signature-bad-label'), (k[:-1], 'formula-signature-unclosed'),
                           ('%s()' % label, 'formula-signature-no-parameters')):
                out.append(setk('Potential-Form', k, nk, op))
            for nv, op in ((v + ' +', 'formula-unparsable'), ('(' + v, 'formula-unparsable'), (v + ' * undefined_q', 'formula-unknown-variable'),
                           (v + ' + nosuch(r)', 'formula-unknown-function'), (v + ' + as.buck(r, 1.0)', 'formula-call-arity'),
                           (v + ' + pymath.nosuch(r)', 'formula-unknown-function'), ('', 'formula-empty'),
                           # the same errors inside the block syntax of the formula language
                           ('if (r > 1.0) { %s; } else { %s + nosuch(r); }' % (v, v), 'formula-unknown-function-in-braces'),
                           ('if (r > 1.0) { %s; } else { %s + as.buck(r, 1.0); }' % (v, v), 'formula-call-arity-in-braces'),
                           ('if (r > 1.0) { %s; } else { %s +; }' % (v, v), 'formula-unparsable-in-braces'),
                           ('if (r > 1.0) { %s; } else { %s * undefined_q; }' % (v, v), 'formula-unknown-variable-in-braces'),
                           (v + ' + pymath.log(r, 2, 2)', 'formula-call-arity:pymath'), (v + ' + pymath.sqrt(r, 2)', 'formula-call-arity:pymath'), (v + ' + pymath.atan2(r)', 'formula-call-arity:pymath')):
                out.append(setv('Potential-Form', k, nv, op))
        if len(pf[1]) >= 2:
            k0, other = pf[1][0][0], pf[1][1][0].split('(')[0]
            out.append(setk('Potential-Form', k0, k0.replace('rho', other), 'formula-parameter-named-like-form'))
            out.append(setv('Potential-Form', pf[1][0][0], pf[1][0][1].replace('helper(r, 2.0)', 'helper(r)'), 'formula-call-arity'))
    # a malformed formula that no interaction uses is still a malformed file
    for nk, nv, op in (('unused(r, A', 'A*r', 'unused-formula-signature-unclosed'), ('unused(r,,A)', 'A*r', 'unused-formula-empty-parameter'),
                       ('unused(r, A, a)', 'A*r + a', 'unused-formula-parameters-differ-in-case'), ('unused(r, A)', 'A*r + ${nosuch}', 'unused-formula-placeholder-unresolved'),
                       ('unused r, A', 'A*r', 'unused-formula-signature-no-parentheses'),
                       ('unused(r, A)', 'A*r +', 'unused-formula-unparsable'), ('unused(r, A)', '(A*r', 'unused-formula-unparsable'), ('unused(r, A)', 'A*r + nosuch(r)', 'unused-formula-unknown-function'),
                       ('unused(r, A)', 'A*r*undefined_q', 'unused-formula-unknown-variable'),
                       # parameter names the formula language cannot bind: its constants, functions, keywords, non-identifiers
                       ('ljx(r, epsilon, sigma)', '4*epsilon*((sigma/r)^12 - (sigma/r)^6)', 'formula-parameter-reserved:epsilon'), ('unused(r, pi)', 'pi*r', 'formula-parameter-reserved:pi'),
                       ('unused(r, inf)', 'r', 'formula-parameter-reserved:inf'), ('unused(r, min)', 'r', 'formula-parameter-reserved:min'), ('unused(r, exp)', 'r', 'formula-parameter-reserved:exp'),
                       ('unused(r, if)', 'r', 'formula-parameter-reserved:if'), ('unused(r, 1x)', 'r', 'formula-parameter-not-identifier'), ('unused(r, _x)', 'r', 'formula-parameter-not-identifier'),
                       ('unused(r, A)(B)', 'r', 'formula-signature-trailing-text')):
        d = ini.copy()
        if d.section('Potential-Form') is None:
            d.sections.append(['Potential-Form', []])
        d.section('Potential-Form')[1].append([nk, nv])
        out.append((op, d))
    # a custom form that is called correctly first and with the wrong number of arguments later (by a later pair); a formula that calls itself
    if pf:
        k0 = pf[1][0][0]
        label = k0.split('(')[0]
        nargs = len(k0.split('(', 1)[1].rstrip(')').split(','))
        pair_sec = ini.section('Pair')
        uses_label = pair_sec is not None and any(v.split()[0] == label for _k, v in pair_sec[1] if v.split())
        if pair_sec is not None and uses_label and nargs >= 3:
            for wrong, op in ((', '.join(['r'] + ['1.0'] * (nargs - 2)), 'formula-call-arity-after-correct-call'), (', '.join(['r'] + ['1.0'] * nargs), 'formula-call-arity-after-correct-call')):
                d = ini.copy()
                d.section('Potential-Form')[1].append(['zzlate(r)', '%s(%s)' % (label, wrong)])
                d.section('Pair')[1].append(['Zz-Zz', 'zzlate'])
                out.append((op, d))
        for body, op in (('selfc(r, A) + 1.0', 'formula-calls-itself'), ('if (r > 100.0) { selfc(r, A); } else { A*r; }', 'formula-calls-itself-in-unreached-branch')):
            d = ini.copy()
            d.section('Potential-Form')[1].append(['selfc(r, A)', body])
            if pair_sec is not None:
                d.section('Pair')[1].append(['Zz-Zz', 'selfc 2.0'])
            out.append((op, d))
        d = ini.copy()
        d.section('Potential-Form')[1].extend([['mut1(r)', 'mut2(r) + 1.0'], ['mut2(r)', 'mut1(r) * 0.5']])
        if pair_sec is not None:
            d.section('Pair')[1].append(['Zz-Zz', 'mut1'])
        out.append(('formulas-call-each-other', d))
    # ---------------------------------------------------------------- [Species]
    sp = ini.section('Species')
    used = set(k for k, _v in (ini.section('EAM-Embed') or [None, []])[1])
    if sp and used:        # [Species] data are only interpreted for EAM targets; elsewhere the section is free-form (placeholders)
        k0 = sp[1][0][0]
        out.append(setk('Species', k0, k0.replace('.', ''), 'species-key-without-dot'))
        for k, v in sp[1]:
            if k.split('.')[0] not in used:
                continue
            if k.endswith('atomic_number') or k.endswith('atomic_mass'):
                out.append(setv('Species', k, 'abc', 'species-non-numeric:%s' % k.split('.')[1]))
                d = ini.copy()
                d.section('Species')[1][:] = [e for e in d.section('Species')[1] if e[0] != k]
                out.append(('species-missing:%s' % k.split('.')[1], d))
        out.append(setv('Species', sp[1][0][0], '1.5', 'species-non-integer-atomic-number') if sp[1][0][0].endswith('atomic_number') else setv('Species', k0, 'x y', 'species-odd-value'))
    # ---------------------------------------------------------------- placeholders
    first = [s for s in DEFN_SECTIONS if ini.section(s)][0]
    k, v = ini.section(first)[1][0]
    for nv, op in ((v + ' ${nosuch}', 'placeholder-unresolved'), (v + ' ${nosuch', 'placeholder-unterminated'), (v + ' $', 'placeholder-bare-dollar'),
                   (v + ' ${Nosuch:key}', 'placeholder-unknown-section'), (v + ' ${Tabulation:nosuch}', 'placeholder-unknown-key'), (v + ' ${}', 'placeholder-empty')):
        out.append(setv(first, k, nv, op))
    out.append(setv('Tabulation', 'target', '${nosuch}', 'placeholder-unresolved:target'))
    # ---------------------------------------------------------------- not an INI file
    text = ini.render()
    out.append(('ini:text-before-first-section', 'stray : 1\n' + text))
    out.append(('ini:no-section-at-all', 'just some text\nmore text\n'))
    out.append(('ini:unclosed-header', text.replace('[Pair]', '[Pair', 1)))
    out.append(('ini:line-without-separator', text.replace('[Pair]\n', '[Pair]\nthis line has no separator\n', 1)))
    out.append(('ini:binary-garbage', '\x00\x01\x02[[[\n'))
    out.append(('ini:empty-file', ''))
    return out


def cases(tier):
    out = []
    M = base_models()
    for name in sorted(M):
        out.append(dict(kind='valid', model=name, text=M[name].render()))
        out.append(dict(kind='valid', model=name + ' (= separator)', text=M[name].render(' = ')))
        for op, m in mutants(name, M[name]):
            text = m if isinstance(m, str) else m.render()
            out.append(dict(kind='malformed', model=name, op=op, text=text))
    # converse: shipped example files
    for pat in ('docs/**/*.aspot', 'tests/**/*.aspot', 'docs/**/*.ini', 'tests/**/*.ini', 'tests/**/*.cfg'):
        for path in sorted(glob.glob(os.path.join(boot.REPO, pat), recursive=True)):
            out.append(dict(kind='shipped', path=os.path.relpath(path, boot.REPO)))
    # converse: every documented target spelling / option value
    for tgt in ('DL_POLY', 'DLPOLY', 'GULP', 'LAMMPS', 'excel'):
        out.append(dict(kind='valid', model='target ' + tgt, text=retarget(M['dlpoly'], tgt)))
    for tgt in ('DL_POLY_EAM', 'excel_eam', 'LAMMPS_eam_alloy', 'lammps_eam_alloy', 'setfl'):
        out.append(dict(kind='valid', model='target ' + tgt, text=retarget(M['tabeam'], tgt)))
    for tgt in ('DL_POLY_EAM_fs', 'setfl_fs', 'excel_eam_fs'):
        out.append(dict(kind='valid', model='target ' + tgt, text=retarget(M['setfl_fs'], tgt)))
    out.append(dict(kind='valid', model='target eam_adp', text=M['adp'].render()))
    out.append(dict(kind='valid', model='no [Tabulation] section (documented defaults)', text='[Pair]\nO-O : as.buck 1000.0 0.3 32.0\n'))
    # the same text as editors on other platforms store it: byte-order mark, CR LF / CR line ends, non-ASCII comments
    lm = M['lammps'].render() if 'lammps' in M else M[sorted(M)[0]].render()
    out.append(dict(kind='valid', model='file starting with a UTF-8 byte-order mark', text='\ufeff' + lm))
    out.append(dict(kind='valid', model='CR LF line ends', text=lm.replace('\n', '\r\n')))
    out.append(dict(kind='valid', model='non-ASCII text in comments', text='# caf\u00e9 \u00c5ngstr\u00f6m \u03c1\n' + lm.replace('[Pair]\n', '[Pair]\n; \u00b5 \u2192\n', 1)))
    # bytes that are not text in the expected encoding: a configuration error, not a traceback
    for name, data in (('latin-1 byte in a comment', b'# caf\xe9\n' + lm.encode()), ('UTF-16 file', lm.encode('utf-16')), ('binary file', bytes(range(256)) * 4)):
        out.append(dict(kind='malformed-bytes', model='lammps', op='bytes:' + name, data=base64.b64encode(data).decode()))
    # large tables given through separate x and y entries (257 .. 5000 points)
    for npt in (256, 257, 300, 1000, 5000):
        xs = ' '.join('%g' % (0.01 * i) for i in range(npt))
        ys = ' '.join('%g' % (1.0 / (1.0 + 0.01 * i)) for i in range(npt))
        out.append(dict(kind='valid', model='table form with %d points in x / y' % npt,
                        text='[Tabulation]\ntarget : LAMMPS\nnr : 4\ncutoff : 2.0\n\n[Pair]\nO-O : tf\n\n[Table-Form:tf]\nx : %s\ny : %s\n' % (xs, ys)))
    # table data wrapped over continuation lines, however many values a line holds
    head = '[Tabulation]\ntarget : LAMMPS\nnr : 4\ncutoff : 3.0\n\n[Pair]\nO-O : tf\n\n[Table-Form:tf]\n'
    for name, body in (('xy, 3 values per line', 'xy : 0 9 1\n   4 2 1\n   3 -1 4\n   -0.5 5 0\n'), ('xy, 5 + 7 values', 'xy : 0 9 1 4 2\n   1 3 -1 4 -0.5 5 0\n'),
                       ('xy, 1 value per line', 'xy : 0\n  9\n  1\n  4\n  2\n  1\n  3\n  -1\n'), ('x and y wrapped differently', 'x : 0 1 2\n   3 4 5\ny : 9 4\n   1 -1\n   -0.5 0\n'),
                       ('xy starting on the next line', 'xy :\n   0 9 1\n   4 2 1 3 -1\n')):
        out.append(dict(kind='valid', model='table form, ' + name, text=head + body))
    return out


def retarget(ini, tgt):
    d = ini.copy()
    d.section('Tabulation')[1][0][1] = tgt
    return d.render()


def observe(text, cwd=None):
    """-> ('accepted', nbytes) | ('config-error', msg) | ('exception', type, frame)"""
    from atsim.potentials.config._common import ConfigurationException
    try:
        tab = R.config_read(text)
        data = R.write_tabulation(tab)
        return ('accepted', len(data))
    except ConfigurationException as e:
        return ('config-error', str(e)[:200])
    except Exception as e:  # noqa
        return ('exception', type(e).__name__, engine.repo_frame(e.__traceback__), str(e)[:200])


def observe_potable(text, binary):
    res = R.potable(text, binary=binary)
    if res.exc is not None:
        return ('exception', type(res.exc).__name__, engine.repo_frame(res.exc.__traceback__), str(res.exc)[:200]), res
    if res.config_error:
        return ('config-error', res.stderr[-200:]), res
    if res.status == 0:
        return ('accepted', len(res.out_bytes or '')), res
    return ('exit', res.status, res.stderr[-200:]), res


def run_case(case):
    viol = []
    if case['kind'] == 'shipped':
        path = os.path.join(boot.REPO, case['path'])
        with open(path) as f:
            text = f.read()
        if '[' not in text:
            return dict(outcome='skipped:not-a-model', nontrivial=False, evals=0, violations=[])
        old = os.getcwd()
        os.chdir(os.path.dirname(path))
        try:
            o = observe(text)
        finally:
            os.chdir(old)
        if o[0] != 'accepted':
            viol.append(dict(sig='valid-model-refused:%s' % o[0], msg='shipped example %s is refused: %r' % (case['path'], o), detail={}))
        return dict(outcome='ok:shipped' if not viol else 'violation', nontrivial=True, evals=1, violations=viol)
    if case['kind'] == 'malformed-bytes':
        res = R.potable(base64.b64decode(case['data']))
        if res.exc is not None:
            viol.append(dict(sig='internal-exception:%s@potable' % type(res.exc).__name__, msg='%s: potable raised %s (%s) instead of reporting a configuration error' % (case['op'], type(res.exc).__name__, res.exc), detail={}))
        elif not res.config_error:
            viol.append(dict(sig='malformed-accepted:%s' % case['op'], msg='%s: potable exit status %r, %d bytes written' % (case['op'], res.status, len(res.out_bytes or '')), detail={}))
        return dict(outcome='rejected:bytes' if not viol else 'violation', nontrivial=True, evals=1, violations=viol)
    text = case['text']
    binary = 'excel' in text.split('[Pair]')[0] if '[Pair]' in text else False
    o1 = observe(text)
    o2, res = observe_potable(text, binary)
    if case['kind'] == 'valid':
        for how, o in (('Configuration.read+write', o1), ('potable', o2)):
            if o[0] != 'accepted' or not o[1]:
                viol.append(dict(sig='valid-model-refused:%s' % (o[0] if o[0] != 'exception' else 'exception:%s@%s' % (o[1], o[2])),
                                 msg='well-formed model %s is refused by %s: %r' % (case['model'], how, o), detail={'text': text}))
                break
        return dict(outcome='ok:valid' if not viol else 'violation', nontrivial=True, evals=2, violations=viol)
    op = case['op']
    for how, o in (('Configuration.read+write', o1), ('potable', o2)):
        if o[0] == 'config-error':
            continue
        if o[0] == 'accepted':
            viol.append(dict(sig='malformed-accepted:%s' % op, msg='%s, operator %s: %s accepted the model and wrote %d bytes' % (case['model'], op, how, o[1]), detail={'text': text}))
        elif o[0] == 'exception':
            viol.append(dict(sig='internal-exception:%s@%s' % (o[1], o[2]), msg='%s, operator %s: %s raised %s (%s) in %s instead of a configuration error'
                             % (case['model'], op, how, o[1], o[3], o[2]), detail={'text': text}))
        else:
            viol.append(dict(sig='bad-exit:%s' % op, msg='%s, operator %s: potable exit status %r: %s' % (case['model'], op, o[1], o[2]), detail={'text': text}))
        break
    if not viol and res.out_exists and res.out_bytes:
        viol.append(dict(sig='rejected-but-wrote', msg='%s, operator %s: configuration error but %d bytes in the output file' % (case['model'], op, len(res.out_bytes)), detail={}))
    return dict(outcome='rejected:%s' % op.split(':')[0] if not viol else 'violation', nontrivial=True, evals=2, violations=viol)
