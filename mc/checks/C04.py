"""C04 - Finnis-Sinclair densities land in the slot the consumer reads for that pair.

Consumer rules (fixed from the consumers' documentation, not from the writer):
  LAMMPS eam/fs : in the block of element X the j-th density array is the density an X *neighbour* contributes at a
                  site of element j  ->  must equal the function declared for 'central j, neighbour X'
  DL_POLY EEAM  : 'dens A B' is the density at an A site due to a B neighbour -> 'central A, neighbour B'
  Excel         : column 'A->B' is central A, neighbour B
"""
import itertools

from .. import eamkit as EK
from ..readers import eam as RE
from ..readers.pair import FormatError
from . import C03, C05

PROPERTY = 'C04'
LEVEL = 'exploration'
RULE = ('cases = Finnis-Sinclair models over every ordered subset of 1..3 (thorough 4) species as embedding order x EVERY subset of '
        'the n^2 ordered A->B density entries declared (n <= 3; 4 species: structured subsets) x entry orders (all for <= 3 entries, '
        'as-is + reversed + rotation beyond) x under-specified embedding sets x target {setfl_fs, DL_POLY_EAM_fs, excel_eam_fs} x '
        'route {class, procedural writer, Configuration.read, potable}; injective density code per ordered pair; every case executed; '
        'two oracles per case: slot-by-slot equality and per-atom densities of three toy clusters computed from the file by the '
        'consumer rule; non-trivial = >= 2 species')
RULE += '; label / foreign-pair models as C03, multi-range density definitions of three shapes, density dictionaries with extra species, lazily computed density mappings (a fresh callable per look-up), comments= / title= options, a density set through the objects after Configuration.read, [Species] layouts'
ASSUMPTIONS = [
    'consumer rules for eam/fs, EEAM and Excel as stated in the module docstring (LAMMPS / DL_POLY manuals, repo tests validated against the binaries)',
    'potable A->B means central A, neighbour B (docs/user_guide/many_body_models.rst: ALPHA central, BETA surrounding)',
    'tolerances: setfl 1e-9 relative; TABEAM 1e-6 absolute (printed %f); Excel exact float',
]
BOUNDS = {'quick': 'species <= 3: all 2^(n^2) density subsets; one target+route combination per model, rotated so that all 12 combinations occur for every subset size',
          'thorough': 'species <= 4; every target for every model, routes rotated'}

TARGETS = ['setfl_fs', 'DL_POLY_EAM_fs', 'excel_eam_fs']


def cases(tier):
    out = []
    sizes = (1, 2, 3) if tier == 'quick' else (1, 2, 3, 4)
    G = EK.grids(tier)
    k = 0
    for els in EK.ordered_subsets(EK.UNIVERSE, sizes):
        n = len(els)
        base = sorted(els, key=EK.idx)
        allp = ['%s->%s' % (a, b) for a in base for b in base]
        if n <= 3:
            masks = range(1 << (n * n)) if (n < 3 or els == base or tier != 'quick') else range(0, 1 << 9, 5)
        else:
            masks = [0, (1 << 16) - 1] + [1 << i for i in range(16)] + [((1 << 16) - 1) ^ (1 << i) for i in range(16)]
        for mask in masks:
            sub = [p for i, p in enumerate(allp) if (mask >> i) & 1]
            if len(sub) <= 3:
                ords = [list(p) for p in itertools.permutations(sub)]
            else:
                ords = [sub, sub[::-1], sub[len(sub) // 2:] + sub[:len(sub) // 2]]
            for dens in ords:
                k += 1
                nr, nrho = G[k % len(G)]
                cutoff, cutoff_rho = EK.CUTS[k % len(EK.CUTS)]
                up = EK.unordered_pairs(els)
                pairs = EK.orient([p for i, p in enumerate(up) if (k >> i) & 1], k % 3)
                m = dict(fs=True, embed=list(els), dens=dens, pairs=[list(p) for p in pairs], species='builtin',
                         nr=nr, cutoff=cutoff, nrho=nrho, cutoff_rho=cutoff_rho)
                tgts = TARGETS if tier != 'quick' else [TARGETS[k % 3]]
                for ti, tgt in enumerate(tgts):
                    route = ['cls', 'proc', 'cfg', 'potable'][(k // 3 + ti) % 4]
                    if tgt == 'excel_eam_fs' and route == 'proc':
                        route = 'cls'
                    out.append(dict(m=m, route=route, target=tgt))
    for m in EK.big_models(True, tier):
        for ti, tgt in enumerate(TARGETS):
            for route in ('cls', 'cfg', 'potable') + (('proc',) if tgt != 'excel_eam_fs' else ()):
                out.append(dict(m=m, route=route, target=tgt))
    for i, m in enumerate(EK.species_layout_models(True)):
        out.append(dict(m=m, route=('cfg', 'potable')[i % 2], target='setfl_fs'))
    for m in EK.api_option_models(True):
        for tgt in ('setfl_fs', 'DL_POLY_EAM_fs'):
            if ('title' in m and tgt == 'setfl_fs') or (('comments' in m or 'header_cutoff' in m) and tgt != 'setfl_fs'):
                continue
            for route in (('proc',) if ('comments' in m or 'title' in m or 'header_cutoff' in m) else ('cls', 'proc')):
                out.append(dict(m=m, route=route, target=tgt))
    for i, m in enumerate(EK.label_models(True, tier)):
        for ti, tgt in enumerate(('setfl_fs', 'DL_POLY_EAM_fs')):
            for route in (('cls', 'proc', 'cfg', 'potable') if tier != 'quick' else (('cls', 'proc')[(i + ti) % 2], ('cfg', 'potable')[(i // 2) % 2])):
                out.append(dict(m=m, route=route, target=tgt))
    for els in (['Al'], ['Cu', 'Al'], ['Fe', 'Al', 'Cu']):
        for extra in (['Ni'], ['Ni', 'Ag']):
            allp = ['%s->%s' % (a, b) for a in els for b in els]
            m = dict(fs=True, embed=list(els), dens=allp[::2] + allp[1::2], pairs=[], species='builtin', nr=4, cutoff=2.5, nrho=3, cutoff_rho=50.0, extra_dict_species=extra)
            for tgt in ('setfl_fs', 'DL_POLY_EAM_fs'):
                for route in ('cls', 'proc'):
                    out.append(dict(m=m, route=route, target=tgt))
    for m in EK.big_grid_models(True)[:2]:
        out.append(dict(m=m, route='cfg', target='setfl_fs'))
    # values of 1e-127 .. 1e120 inside the tabulated range
    for m in EK.extreme_models(True)[:2]:
        for tgt in ('setfl_fs', 'DL_POLY_EAM_fs'):
            for route in ('cls', 'potable'):
                out.append(dict(m=m, route=route, target=tgt))
    # under-specified: species that appear only as neighbour (to-only) or only as centre (from-only) of a density entry
    for els in EK.ordered_subsets(EK.UNIVERSE, (2, 3)):
        for ne in range(1, len(els)):
            for variant in range(5):
                k += 1
                a, b = els[0], els[-1]
                # (variants 3 and 4: b occurs ONLY as a neighbour, in a row that is / is not the last one of its central species)
                dens = [['%s->%s' % (a, b)], ['%s->%s' % (b, a)], ['%s->%s' % (a, b), '%s->%s' % (b, b), '%s->%s' % (a, a)],
                        ['%s->%s' % (a, b), '%s->%s' % (a, a)], ['%s->%s' % (a, a), '%s->%s' % (a, b)]][variant]
                nr, nrho = G[k % len(G)]
                m = dict(fs=True, embed=list(els[:ne]), dens=dens, pairs=[], species='builtin', nr=nr, cutoff=2.5, nrho=nrho, cutoff_rho=50.0)
                if not set(EK.model_elements(m)) >= set(els[:ne]):
                    continue
                for tgt in TARGETS:
                    out.append(dict(m=m, route=('cfg', 'potable')[k % 2], target=tgt))
    # a model read from a file, one undeclared density function then set through the Python objects before writing
    for els in (['Al', 'Cu', 'Fe'], ['Fe', 'Ni', 'Al', 'Cu']):
        base = sorted(els, key=EK.idx)
        a = base[0]
        dens = ['%s->%s' % (a, b) for b in base]                       # only `a` is ever a central atom
        for setpair in ((base[1], a), (base[2], base[1]), (base[-1], base[-1])):
            for tgt in TARGETS:
                out.append(dict(m=dict(fs=True, embed=list(els), dens=dens, pairs=[], species='builtin', nr=4, cutoff=2.5, nrho=3, cutoff_rho=50.0, set_after=list(setpair)), route='cfg-mutate', target=tgt))
    return out


def cluster_density(els, rho_at):
    """per-atom densities of three toy clusters; rho_at(central, neighbour, grid index) from the file or the model.
    clusters are lists of (species, position index on a line), distances = |i-j| grid steps"""
    n = len(els)
    clusters = [[(els[0], 0), (els[-1], 1), (els[-1], 2)],
                [(els[i % n], i) for i in range(3)],
                [(els[-1], 0), (els[0], 1)]]
    out = []
    for cl in clusters:
        for (sa, pa) in cl:
            tot = 0.0
            for (sb, pb) in cl:
                if pb != pa:
                    tot += rho_at(sa, sb, abs(pa - pb))
            out.append(tot)
    return out


def run_case(case):
    m, route, tgt = case['m'], case['route'], case['target']
    viol = []

    def V(sig, msg):
        viol.append(dict(sig=sig, msg=msg, detail={}))
    if route == 'cfg-mutate':
        from .. import routes as R_
        tab = R_.config_read(EK.eam_ini(m, tgt))
        c_, n_ = m['set_after']
        pot = [p for p in tab.eam_potentials if p.species == c_][0]
        pot.electronDensityFunction[n_] = R_.api_defn(EK.dens_fs_defn(c_, n_))
        data = R_.write_tabulation(tab)
        m = dict(m, dens=m['dens'] + ['%s->%s' % (c_, n_)])
        route = 'cfg'
    else:
        data = EK.produce(m, tgt, route)
    ref = EK.ref_functions(m, EK.semantics(route))
    els = EK.model_elements(m)
    dr = m['cutoff'] / (m['nr'] - 1)
    evals = 1
    file_rho = None
    if tgt == 'setfl_fs':
        v2, t = C03.check_setfl(m, route, data, kind='fs')
        viol.extend(v2)
        if t and not any(v['sig'].startswith(('format', 'element', 'header-counts')) for v in v2):
            hdr = t['elements']
            for x, blk in enumerate(t['blocks']):
                for j, arr in enumerate(blk['dens']):
                    f = ref['rho'][(hdr[j], hdr[x])]     # central j, neighbour X
                    evals += len(arr)
                    for i, v in enumerate(arr):
                        r = f(i * dr).v
                        if not C03.close(v, r, 0.0 if m.get('mag') else 1e-13):
                            V('fs-slot:setfl', 'element block %s, density array %d (site %s): value %d = %r, the function declared for central %s / neighbour %s gives %r'
                              % (hdr[x], j, hdr[j], i, v, hdr[j], hdr[x], r))
                            break
            file_rho = lambda a, b, i: t['blocks'][hdr.index(b)]['dens'][hdr.index(a)][i]  # noqa
    elif tgt == 'DL_POLY_EAM_fs':
        v2, t = C05.check_tabeam(m, route, data, True)
        for v in v2:
            if v['sig'] == 'value:dens':
                v['sig'] = 'fs-slot:tabeam'
        viol.extend(v2)
        if t:
            d = {b['species']: b for b in t['blocks'] if b['kind'] == 'dens'}
            evals += sum(b['n'] for b in t['blocks'])
            if all((a, b) in d for a in els for b in els):
                file_rho = lambda a, b, i: d[(a, b)]['values'][i][0]  # noqa
    else:
        try:
            wb = RE.read_xlsx(data)
        except Exception as e:  # noqa
            V('format-error', 'unreadable xlsx: %s' % e)
            wb = None
        if wb is not None:
            if 'EAM-Density' not in wb:
                V('excel-sheet', 'no EAM-Density sheet: %r' % wb['__order__'])
            else:
                head, rows = wb['EAM-Density']
                cols = {h: i for i, h in enumerate(head)}
                for a in els:
                    for b in els:
                        lab = '%s->%s' % (a, b)
                        if lab not in cols:
                            V('excel-column-missing', 'no column %r in EAM-Density: %r' % (lab, head))
                            continue
                        f = ref['rho'][(a, b)]
                        evals += len(rows)
                        for i, row in enumerate(rows):
                            r = f(i * dr).v
                            v = row[cols[lab]]
                            if v is None or abs(v - r) > 1e-12 * abs(r) + 1e-300:
                                V('fs-slot:excel', 'column %s row %d: %r, reference %r' % (lab, i, v, r))
                                break
                if len(rows) != m['nr']:
                    V('excel-rows', 'EAM-Density has %d rows, expected nr=%d' % (len(rows), m['nr']))
                if all('%s->%s' % (a, b) in cols for a in els for b in els) and len(rows) == m['nr']:
                    file_rho = lambda a, b, i: rows[i][cols['%s->%s' % (a, b)]]  # noqa
    # second oracle: per-atom densities of toy clusters by the consumer's rule
    if file_rho is not None and m['nr'] >= 3 and not viol:
        try:
            got = cluster_density(els, file_rho)
            exp = cluster_density(els, lambda a, b, i: ref['rho'][(a, b)](i * dr).v)
            tol = 3e-6 if tgt == 'DL_POLY_EAM_fs' else 1e-9
            for g, e in zip(got, exp):
                if abs(g - e) > tol * (1 + abs(e)):
                    V('cluster-density', 'per-atom density from the file %r, from the model %r' % (g, e))
                    break
        except (IndexError, KeyError, TypeError) as e:
            V('cluster-density', 'cannot compute cluster densities from the file: %r' % e)
    return dict(outcome='ok:%s:%s:%d' % (tgt, route, len(els)) if not viol else 'violation', nontrivial=len(els) >= 2, evals=evals, violations=viol)
