"""C14 - --override-item / --add-item / --remove-item equal editing the file by hand (E2 histories)."""
import io, itertools

from .. import routes as R, hist
from ..initext import Ini, EditError, override, remove, add, norm
from ..readers import eam as RE

PROPERTY = 'C14'
LEVEL = 'model_checking'
RULE = ('histories = every sequence of override / remove / add operations up to depth D over an alphabet of (section, key[, value]) triples '
        '(existing keys, keys spelt with embedded whitespace, missing keys, missing sections, the last key of a section, Table-Form and '
        '[Variables] keys) for a pair file and an EAM file, executed (a) through ConfigParser(overrides=, additional=) and (b) through the '
        'potable command line (-e/-r/-a, one value per occurrence and several values per occurrence), in lock-step with the reference: the '
        'same edits applied to the ordered text model, whose rendering is parsed/tabulated by the same implementation; observations: '
        'configuration-error vs success, parsed lists, output bytes, --list-items / --list-item-labels / --item-value')
RULE += "; third file: embedding-only EAM model with an empty [Pair] header; values containing ':' then '=', placeholders, two lines, blanks around them, '' (empty); pin-then-override-the-variable sequences; sequences of 4-5 overrides over three items and of 2-4 same-valued overrides (three groupings); tuple / generator arguments; sections the listing must show once ([Table-Form : t2], [Pair:disabled], [Notes]); malformed items (no '=', no ':', unknown item for --item-value, stray '$'); the manual's options-first argument order (known finding F33); fourth file: an ADP model whose dipole / quadrupole entries are edited and listed; a variable whose placeholder is glued to other text, overridden with a blank-padded value; one item removed twice under two blank-spellings of its key (12 ordered pairs, separate and grouped options)"
ASSUMPTIONS = [
    'ConfigParser(overrides=, additional=) applies the override list in order (value None = removal) and then the additions: the reference applies the edits in that order and is rejected at the first edit that hand editing could not perform',
    'command line: options of one kind are applied in the order typed, overrides and removals before additions; exact repetitions of one removal are outside the alphabet (the de-duplication of identical options is not specified)',
    'an edit that hand editing could not perform must be a ConfigurationException subclass (API) / "configuration error" with exit status 2 (potable)',
    '--list-items is compared as a multiset of SECTION:KEY=VALUE lines with normalised keys',
]
BOUNDS = {'quick': 'API histories to depth 3 over 46 operations (pair file) / 2 over 18 and 15 (EAM files); command line to depth 2',
          'thorough': 'API depth 4 (pair file, parser-level observations beyond depth 3), command line depth 3'}


def pair_file():
    return Ini([['Tabulation', [['target', 'LAMMPS'], ['nr', '4'], ['cutoff', '2.0']]],
                ['Pair', [['O-O', 'as.buck 1000.0 0.3 32.0'], ['U-O', 'cbuck ${Variables:A_uo} 0.35'], ['U-U', 'sum(as.bornmayer 850.0 0.35, tf)'],
                          ['Zr-O', 'as.buck 1${zeros}.0 0.3 32.0']]],            # (a placeholder glued to other text)
                ['Variables', [['A_uo', '800.0'], ['note', 'fitted 2019'], ['zeros', '000']]],
                ['Potential-Form', [['cbuck(r,A,rho)', 'A*exp(-r/rho) + 1.0/r']]],
                ['Table-Form:tf', [['x', '0 1 2 3'], ['y', '3 2 1 0.5']]],
                ['Species', [['O.charge', '-2.0']]],
                # sections the listing must show once each: a table form whose header has a blank before the colon, sections potable does not interpret
                ['Table-Form : t2', [['xy', '0 1 1 2 2 3 3 4']]], ['Pair:disabled', [['U-O', 'as.zero']]], ['Notes', [['author', 'someone']]]])


def eam_file():
    return Ini([['Tabulation', [['target', 'setfl'], ['nr', '3'], ['cutoff', '2.0'], ['nrho', '3'], ['cutoff_rho', '10.0']]],
                ['EAM-Embed', [['U', '>=0 as.polynomial 0.1 -1.0 0.01'], ['O', '>=0 as.polynomial 0.2 -1.3 0.02']]],
                ['EAM-Density', [['U', '>=0 as.exp_spline 0.7 -0.9 0.01 0 0 0 0'], ['O', '>=0 as.exp_spline 0.9 -1.0 0.02 0 0 0 0.05']]],
                ['Pair', [['U-O', '>=0 as.morse 1.3 2.05 0.35']]],
                ['Species', [['U.lattice_constant', '5.47']]]])


def eam_nopair_file():
    """an embedding/density-only model: the (required) [Pair] section is an empty header"""
    f = eam_file()
    f.section('Pair')[1][:] = []
    return f


def adp_file():
    f = eam_file()
    f.section('Tabulation')[1][0][1] = 'eam_adp'
    f.sections.append(['EAM-ADP-Dipole', [['U-O', '>=0 as.polynomial 0.5 -0.2 0.01'], ['U-U', '>=0 as.polynomial 0.6 -0.2 0.01']]])
    f.sections.append(['EAM-ADP-Quadrupole', [['O-O', '>=0 as.morse 0.75 1.3 0.2'], ['U-O', '>=0 as.morse 0.85 1.3 0.21']]])
    return f


FILES = {'pair': pair_file, 'eam': eam_file, 'eamnp': eam_nopair_file, 'adp': adp_file}

# (section, key as typed, values)
KEYS = {
    # values: one containing ':' and, later, '=' (a placeholder and a '>=' range); one equal to the current EXPANDED value of its item (pins it)
    'pair': [('Pair', 'O-O', ['as.lj 0.2 2.5', 'as.morse 1.8 2.0 0.6', '>0 as.buck 1000.0 0.3 ${Species:O.charge} >=1.5 as.zero']),
             ('Pair', 'U - O', ['as.lj 0.3 2.2', 'cbuck 800.0 0.35']), ('Variables', 'A_uo', ['900.0']), ('Variables', 'zeros', [' 00 ']), ('Variables', 'note', ['']),       # (an empty value is a value, not a removal)
             ('Pair', 'Th-O', ['as.zbl 8 8\n>=0.8 as.buck 1000.0 0.3 32.0', 'as.lj 0.4 2.1']),       # (a value that spans two lines)
             ('Tabulation', 'nr', ['5']), ('Tabulation', 'dr', ['0.25']), ('Tabulation', 'target', [' LAMMPS ']),      # (blanks around a value, as in 'target :  LAMMPS ')
             ('Potential-Form', 'cbuck(r, A, rho)', ['A*exp(-r/rho)']),
             ('Table-Form:tf', 'y', ['9 8 7 6']), ('Species', 'O.charge', ['-1.5']), ('NewSection', 'k', ['v']), ('Pair', 'U-U', ['as.zero']),
             ('Variables', 'newvar', ['1.5']),
             ('Pair ', 'Pu-O', ['as.lj 0.25 2.3'])],        # (the section named with a trailing blank, as in '--add-item "Pair :Pu-O=..."')
    'eamnp': [('EAM-Embed', 'U', ['>=0 as.polynomial 0.5 -2.0']), ('EAM-Density', 'O', ['>=0 as.polynomial 1.0 0.5']), ('Species', 'U.lattice_constant', ['5.5']),
              ('Pair', 'U-O', ['>=0 as.morse 1.0 2.0 0.5']), ('Tabulation', 'nrho', ['4'])],
    'adp': [('EAM-ADP-Dipole', 'U-O', ['>=0 as.polynomial 0.25 0.5']), ('EAM-ADP-Dipole', 'O-O', ['>=0 as.polynomial 0.75 0.5']), ('EAM-ADP-Quadrupole', 'U - O', ['>=0 as.polynomial 0.125 0.5']),
            ('EAM-ADP-Quadrupole', 'U-U', ['as.zero']), ('Pair', 'U-O', ['>=0 as.morse 1.0 2.0 0.5']), ('EAM-Density', 'U', ['>=0 as.polynomial 1.0 0.5'])],
    'eam': [('EAM-Embed', 'U', ['>=0 as.polynomial 0.5 -2.0']), ('EAM-Density', 'U', ['>=0 as.polynomial 1.0 0.5']), ('EAM-Density', 'Th', ['as.zero']),
            ('Pair', 'U-O', ['>=0 as.morse 1.0 2.0 0.5']), ('Species', 'U.lattice_constant', ['5.5']), ('Tabulation', 'nrho', ['4'])],
}


def alphabet(fname):
    ops = []
    for sec, key, vals in KEYS[fname]:
        for v in vals:
            ops.append(['O', sec, key, v])
        ops.append(['X', sec, key])
        ops.append(['A', sec, key, vals[0]])
    return ops


def valid_api(prefix):
    # the API has two lists: every override/removal is applied before every addition
    seen_add = False
    for op in prefix:
        if op[0] == 'A':
            seen_add = True
        elif seen_add:
            return False
    return True


def valid_cli(prefix):
    if not valid_api(prefix):
        return False
    rem = [(op[1], op[2]) for op in prefix if op[0] == 'X']
    return len(set(rem)) == len(rem)


def cases(tier):
    out = []
    for fname, d in (('pair', 3 if tier == 'quick' else 4), ('eam', 2 if tier == 'quick' else 3), ('eamnp', 2 if tier == 'quick' else 3), ('adp', 2 if tier == 'quick' else 3)):
        for h in hist.histories(alphabet(fname), d, valid_api):
            out.append(dict(route='api', file=fname, ops=h, light=(len(h) > 3)))
    for fname, d in (('pair', 2 if tier == 'quick' else 3), ('eam', 2), ('eamnp', 2), ('adp', 2)):
        for h in hist.histories(alphabet(fname), d, valid_cli):
            out.append(dict(route='cli', file=fname, ops=h, grouped=False))
            if len(h) >= 2:
                out.append(dict(route='cli', file=fname, ops=h, grouped=True))
    for fname in FILES:
        out.append(dict(route='cli', file=fname, ops=[], grouped=False))
    # items that cannot be edits of the file: no '=', no ':', unknown section / key for --item-value; a value with a stray '$'
    for args in (['-e', 'Tabulation:nr'], ['-e', 'nr=5'], ['-a', 'Pair'], ['-a', 'Pair:'], ['-r', 'nocolon'], ['-e', '=5'], ['-e', ':=5'], ['--item-value', 'Nosuch:key'],
                 ['--item-value', 'Tabulation:nosuch'], ['--item-value', 'nocolon'], ['-e', 'Pair:O-O=as.buck 1000.0 0.3 $'], ['-a', 'Pair:Th-O=as.buck 1000.0 0.3 $'],
                 ['-e', 'Pair:O-O=${nosuch}']):
        out.append(dict(route='cli-malformed', file='pair', args=args))
    # argument order of the manual's quick start: potable --override-item SECTION:KEY=VALUE POTENTIAL_DEFN_FILE OUTPUT_FILE
    for flag, item in (('--override-item', 'Tabulation:nr=5'), ('-e', 'Tabulation:nr=5'), ('--add-item', 'Pair:Th-O=as.lj 0.4 2.1'), ('--remove-item', 'Pair:U-U')):
        out.append(dict(route='cli-order', file='pair', flag=flag, item=item))
    # long command lines: every sequence of 4 and 5 overrides over three items (repeats: the last occurrence of an item wins)
    items = [('Tabulation', 'nr', ['5', '6', '7', '8', '9']), ('Tabulation', 'cutoff', ['2.5', '3.0', '3.5', '4.5', '5.0']),
             ('Pair', 'O-O', ['as.lj 0.2 2.5', 'as.morse 1.8 2.0 0.6', 'as.lj 0.3 2.2', 'as.zero', 'as.hbnd 120.0 35.0'])]
    for n in ((4, 5) if tier == 'quick' else (4, 5, 6)):
        for seq in itertools.product(range(3), repeat=n):
            if len(set(seq)) < 2:
                continue
            ops = [['O', items[i][0], items[i][1], items[i][2][k % 5]] for k, i in enumerate(seq)]
            out.append(dict(route='cli', file='pair', ops=ops, grouped=('split' if sum(seq) % 2 else False), light=True))
    # several overrides that carry the SAME value text (refining two grids to the same number): none of them may be lost
    same = [['O', 'Tabulation', 'nr', '5'], ['O', 'Tabulation', 'cutoff', '5'], ['O', 'Species', 'O.charge', '5'], ['O', 'Variables', 'A_uo', '5']]
    for n in (2, 3, 4):
        for seq in itertools.permutations(same, n):
            for grouped in (False, True, 'split'):
                out.append(dict(route='cli', file='pair', ops=[list(o) for o in seq], grouped=grouped, light=True))
            out.append(dict(route='api', file='pair', ops=[list(o) for o in seq], light=True))
    # one item removed twice under two blank-spellings of its key: after the first removal nothing is left for the second (as when it names any absent item)
    for a, b in itertools.permutations(['U-O', 'U - O', 'U -O', ' U-O'], 2):
        for grouped in (False, True):
            out.append(dict(route='cli', file='pair', ops=[['X', 'Pair', a], ['X', 'Pair', b]], grouped=grouped, light=True))
    # the API accepts any iterable of override tuples
    for fname in FILES:
        for h in hist.histories(alphabet(fname), 2, valid_api):
            for cont in ('tuple', 'generator'):
                out.append(dict(route='api', file=fname, ops=h, light=True, container=cont))
    return out


def reference(fname, ops):
    """apply the edits to the text model; -> (Ini or None, index of the first edit that cannot be performed, reason)"""
    ini = FILES[fname]()
    for i, op in enumerate(ops):
        try:
            if op[0] == 'O':
                override(ini, op[1], op[2], op[3])
            elif op[0] == 'X':
                remove(ini, op[1], op[2])
            else:
                add(ini, op[1], op[2], op[3])
        except EditError as e:
            return None, i, str(e)
    return ini, None, None


def observe_parser(cp, tabulate=True):
    """everything observable from a ConfigParser: parsed lists (or the configuration error each raises) and the table bytes"""
    from atsim.potentials.config import Configuration
    from atsim.potentials.config._common import ConfigurationException
    obs = {}
    for a in ('pair', 'potential_form', 'table_form', 'species', 'eam_embed', 'eam_density', 'orphan_sections', 'parsed_sections'):
        try:
            v = getattr(cp, a)
            obs[a] = sorted(v) if a in ('parsed_sections',) else v
        except ConfigurationException as e:
            obs[a] = ('config-error', type(e).__name__)
        except Exception as e:  # noqa  -- internal exceptions for malformed input are C16's business; here only equality with the edited file matters
            obs[a] = ('exception', type(e).__name__)
    try:
        t = cp.tabulation
        obs['tabulation'] = (t.target, t.nr, t.cutoff, t.nrho, t.cutoff_rho)
    except ConfigurationException as e:
        obs['tabulation'] = ('config-error', type(e).__name__)
    if tabulate:
        try:
            obs['bytes'] = R.write_tabulation(Configuration().read_from_parser(cp))
        except ConfigurationException as e:
            obs['bytes'] = ('config-error',)
        except Exception as e:  # noqa
            obs['bytes'] = ('exception', type(e).__name__)
    return obs


def describe(ops):
    return ' ; '.join({'O': 'override', 'X': 'remove', 'A': 'add'}[o[0]] + ' [%s] %r' % (o[1], o[2]) + ('=%r' % o[3] if len(o) > 3 else '') for o in ops)


def run_api(case):
    from atsim.potentials.config import ConfigParser, ConfigParserOverrideTuple as T
    from atsim.potentials.config._common import ConfigurationException
    fname, ops = case['file'], case['ops']
    viol = []
    ref, bad, why = reference(fname, ops)
    ov = [T(o[1], o[2], o[3] if o[0] == 'O' else None) for o in ops if o[0] in 'OX']
    ad = [T(o[1], o[2], o[3]) for o in ops if o[0] == 'A']
    if case.get('container') == 'tuple':
        ov, ad = tuple(ov), tuple(ad)
    elif case.get('container') == 'generator':
        ov, ad = (x for x in list(ov)), iter(list(ad))
    text = FILES[fname]().render()
    state = 'rejected@%s' % bad if ref is None else repr(ref.to_json())
    try:
        cp = ConfigParser(io.StringIO(text), overrides=ov, additional=ad)
        got = 'accepted'
    except ConfigurationException as e:
        got = 'config-error'
        cp = None
    if ref is None:
        if got != 'config-error':
            viol.append(dict(sig='invalid-edit-accepted:%s-%s' % (ops[bad][0], why), msg='%s file, edits [%s]: edit %d (%s) cannot be performed by hand (%s) but ConfigParser accepted the sequence'
                             % (fname, describe(ops), bad + 1, describe([ops[bad]]), why), detail={}))
    else:
        try:
            rcp = ConfigParser(io.StringIO(ref.render()))
            robs = observe_parser(rcp, not case.get('light'))
            rgot = 'accepted'
        except ConfigurationException:
            rgot = 'config-error'
        if got != rgot:
            viol.append(dict(sig='edit-outcome-differs', msg='%s file, edits [%s]: ConfigParser(overrides, additional) -> %s, hand-edited file -> %s' % (fname, describe(ops), got, rgot), detail={'edited': ref.render()}))
        elif got == 'accepted':
            obs = observe_parser(cp, not case.get('light'))
            for k in robs:
                if obs[k] != robs[k]:
                    viol.append(dict(sig='differs-from-edited-file:%s' % k, msg='%s file, edits [%s]: %s = %s ; hand-edited file gives %s' % (fname, describe(ops), k, str(obs[k])[:300], str(robs[k])[:300]),
                                     detail={'edited': ref.render()}))
                    break
    return dict(outcome='ok:api:%s' % ('rejected' if ref is None else 'applied') if not viol else 'violation', nontrivial=len(ops) >= 2,
                evals=len(ops), violations=viol, states=[state[:2000]], transitions=len(ops), traces=1)


def cli_args(ops, grouped):
    flag = {'O': '-e', 'X': '-r', 'A': '-a'}
    args = []
    if grouped == 'split':
        # two occurrences of one option, each with several values
        vals = ['%s:%s=%s' % (o[1], o[2], o[3]) for o in ops]
        k = len(vals) // 2 + 1
        return ['-e'] + vals[:k] + ['-e'] + vals[k:]
    if grouped:
        for kind in 'OXA':
            vals = ['%s:%s%s' % (o[1], o[2], '=' + o[3] if kind != 'X' else '') for o in ops if o[0] == kind]
            if vals:
                args += [flag[kind]] + vals
    else:
        for o in ops:
            args += [flag[o[0]], '%s:%s%s' % (o[1], o[2], '=' + o[3] if o[0] != 'X' else '')]
    return args


def cli_reference_order(ops):
    """the command line applies overrides and removals (in the order typed within their kind: all -e then all -r) before additions"""
    return [o for o in ops if o[0] == 'O'] + [o for o in ops if o[0] == 'X'] + [o for o in ops if o[0] == 'A']


def run_cli(case):
    fname, ops = case['file'], case['ops']
    viol = []
    # an override and a removal of the very same key text: the removal supersedes (the override is dropped before anything is applied)
    eff = []
    for o in cli_reference_order(ops):
        if o[0] == 'O':
            if any(x[0] == 'X' and (x[1], x[2]) == (o[1], o[2]) for x in ops):
                continue
            later = [x for x in ops if x[0] == 'O' and (x[1], x[2]) == (o[1], o[2])]
            if later[-1] is not o:
                continue          # last occurrence of one key text wins
        eff.append(o)
    ref, bad, why = reference(fname, eff)
    text = FILES[fname]().render()
    args = cli_args(ops, case['grouped'])
    binary = False
    res = R.potable(text, args=args, binary=binary)
    state = 'rejected@%s' % bad if ref is None else repr(ref.to_json())
    if ref is None and res.exc is not None:
        viol.append(dict(sig='internal-exception:%s' % type(res.exc).__name__, msg='potable %s raised %s: %s' % (' '.join(args), type(res.exc).__name__, res.exc), detail={}))
    elif ref is None:
        if not res.config_error:
            viol.append(dict(sig='invalid-edit-accepted:%s-%s' % (eff[bad][0], why), msg='potable %s on the %s file: %s cannot be performed by hand (%s) but potable exited with status %r'
                             % (' '.join(args), fname, describe([eff[bad]]), why, res.status), detail={}))
    else:
        want = R.potable(ref.render())
        a = ('config-error',) if res.config_error else ('status', res.status, res.out_bytes, type(res.exc).__name__)
        b = ('config-error',) if want.config_error else ('status', want.status, want.out_bytes, type(want.exc).__name__)
        if a != b:
            viol.append(dict(sig='cli-differs-from-edited-file', msg='potable %s on the %s file gives %s; the hand-edited file gives %s' % (' '.join(args), fname, str(a)[:200], str(b)[:200]),
                             detail={'edited': ref.render()}))
        elif b == ('config-error',) or any(len(o) > 3 and '\n' in o[3] for o in ops):
            pass          # the edited file is itself refused (e.g. a placeholder left dangling by a removal): both agree, nothing to list
        elif case.get('light'):
            li = R.potable(text, args=args + ['--list-items'], want_output=False)
            if li.status != 0 or sorted(parse_items(li.stdout)) != sorted(expanded_items(ref)):
                viol.append(dict(sig='list-items', msg='potable %s --list-items prints %r; the edited file has the items %r' % (' '.join(args), sorted(parse_items(li.stdout)), sorted(expanded_items(ref))), detail={}))
        else:
            # --list-items / --list-item-labels / --item-value on the edited configuration
            li = R.potable(text, args=args + ['--list-items'], want_output=False)
            items = sorted(expanded_items(ref))
            got = sorted(parse_items(li.stdout))
            if li.status != 0 or got != items:
                viol.append(dict(sig='list-items', msg='potable %s --list-items prints %r; the edited file has the items %r' % (' '.join(args), got, items), detail={}))
            else:
                ll = R.potable(text, args=args + ['--list-item-labels'], want_output=False)
                labels = sorted(l for l in ll.stdout.split('\n') if l)
                if labels != sorted(k for k, _v in items):
                    viol.append(dict(sig='list-item-labels', msg='potable %s --list-item-labels prints %r, expected %r' % (' '.join(args), labels, sorted(k for k, _v in items)), detail={}))
                for k, v in items:
                    iv = R.potable(text, args=args + ['--item-value', k], want_output=False)
                    if iv.exc is not None or iv.status != 0 or iv.stdout != v + '\n':
                        viol.append(dict(sig='item-value', msg='potable %s --item-value %s prints %r (status %r, %s), the edited file has %r' % (' '.join(args), k, iv.stdout, iv.status, iv.exc, v), detail={}))
                        break
    return dict(outcome='ok:cli:%s' % ('rejected' if ref is None else 'applied') if not viol else 'violation', nontrivial=len(ops) >= 1,
                evals=max(1, len(ops)), violations=viol, states=[state[:2000]], transitions=max(1, len(ops)), traces=1)


def expanded_items(ref):
    """items of the edited file with ${SECTION:KEY} placeholders expanded (the documented extended interpolation; the listing prints values as used)"""
    import re
    items = ref.items()
    d = {}
    for k, v in items:
        d[norm(k)] = v

    def ex(v, depth=0, section='Variables'):
        def sub(m):
            key = norm('%s:%s' % (m.group(1), m.group(2)))
            return ex(d[key].strip(), depth + 1, m.group(1)) if key in d and depth < 5 else m.group(0)      # (a file's values are read without surrounding blanks)

        def bare(m):
            # ${NAME}: a key of the value's own section first, then [Variables] (configparser's look-up order)
            for sec in (section, 'Variables'):
                key = norm('%s:%s' % (sec, m.group(1)))
                if key in d and depth < 5:
                    return ex(d[key].strip(), depth + 1, sec)
            return m.group(0)
        return re.sub(r'\$\{([^}:]+)\}', bare, re.sub(r'\$\{([^}:]+):([^}]+)\}', sub, v))
    return [(k, ex(v, 0, k.rsplit(':', 1)[0]).strip()) for k, v in items]        # (a file's values are read without surrounding blanks)


def parse_items(stdout):
    out = []
    for line in stdout.split('\n'):
        if not line:
            continue
        k, _, v = line.partition('=')
        out.append((k, v))
    return out


def run_cli_order(case):
    """options BEFORE the positional arguments, as in docs/quick_start/quickstart.rst ('potable --override-item Tabulation:target=GULP basak.aspot potentials.lib')"""
    text = FILES[case['file']]().render()
    first = R.potable(text, args=[case['flag'], case['item']], options_first=True)
    last = R.potable(text, args=[case['flag'], case['item']])
    viol = []
    a = (first.status, first.out_bytes, type(first.exc).__name__)
    b = (last.status, last.out_bytes, type(last.exc).__name__)
    if a != b:
        viol.append(dict(sig='documented-argument-order-refused', msg='potable %s %s FILE OUT: exit status %r (%s); with the positional arguments first: exit status %r, %d bytes'
                         % (case['flag'], case['item'], first.status, first.stderr.strip().split('\n')[-1][:160], last.status, len(last.out_bytes or '')), detail={}))
    return dict(outcome='ok:cli-order' if not viol else 'violation', nontrivial=True, evals=2, violations=viol, states=['cli-order'], transitions=2, traces=1)


def run_cli_malformed(case):
    text = FILES[case['file']]().render()
    want_output = '--item-value' not in case['args']
    res = R.potable(text, args=case['args'], want_output=want_output)
    viol = []
    if res.exc is not None:
        viol.append(dict(sig='internal-exception:%s@potable' % type(res.exc).__name__, msg='potable %s raised %s (%s) instead of reporting a configuration error' % (' '.join(case['args']), type(res.exc).__name__, res.exc), detail={}))
    elif not res.config_error:
        viol.append(dict(sig='invalid-edit-accepted:malformed-item', msg='potable %s: exit status %r, %s' % (' '.join(case['args']), res.status, res.stderr[-200:]), detail={}))
    elif res.out_exists and res.out_bytes:
        viol.append(dict(sig='rejected-but-wrote', msg='potable %s: configuration error but %d bytes written' % (' '.join(case['args']), len(res.out_bytes)), detail={}))
    return dict(outcome='rejected:cli-malformed' if not viol else 'violation', nontrivial=True, evals=1, violations=viol, states=['cli-malformed'], transitions=1, traces=1)


def run_case(case):
    if case['route'] == 'cli-malformed':
        return run_cli_malformed(case)
    if case['route'] == 'cli-order':
        return run_cli_order(case)
    return run_api(case) if case['route'] == 'api' else run_cli(case)
