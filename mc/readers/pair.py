"""Independent, strict readers for the pair-table formats (as the consuming codes read them).

Each reader returns parsed structure or raises FormatError naming what a consumer would choke on.
Numbers are returned as (float value, unit-in-last-printed-place) so oracles can apply the
"to the printed precision" rule.
"""
import re


class FormatError(Exception):
    pass


def ulp_of(tok):
    """one unit in the last printed place of a decimal / scientific literal"""
    t = tok.strip().lower()
    m = re.match(r'^[+-]?(\d*)\.?(\d*)(?:e([+-]?\d+))?$', t)
    if not m:
        raise FormatError('not a number: %r' % tok)
    frac = m.group(2) or ''
    e = int(m.group(3) or 0)
    return 10.0 ** (e - len(frac))


def fnum(tok):
    try:
        return float(tok)
    except ValueError:
        raise FormatError('not a number: %r' % tok)


# ----------------------------------------------------------------------------------------- LAMMPS pair_style table
def read_lammps_table(text):
    """blocks: [dict(keyword, N, lo, hi, rows=[(idx, r, E, F, (ur,uE,uF))])]
    Syntax per LAMMPS pair_style table: keyword line; 'N n R lo hi' line; blank line; N rows 'i r e f'."""
    lines = text.split('\n')
    if lines and lines[-1] == '':
        lines = lines[:-1]
    i = 0
    blocks = []
    n = len(lines)
    while i < n:
        # skip blank / comment lines between sections
        while i < n and (lines[i].strip() == '' or lines[i].lstrip().startswith('#')):
            i += 1
        if i >= n:
            break
        kw = lines[i].strip()
        if len(kw.split()) != 1:
            raise FormatError('line %d: section keyword expected, found %r' % (i + 1, lines[i]))
        i += 1
        if i >= n:
            raise FormatError('keyword %r without parameter line' % kw)
        ptoks = lines[i].split()
        if len(ptoks) != 5 or ptoks[0] != 'N' or ptoks[2] != 'R':
            raise FormatError('line %d: parameter line "N n R lo hi" expected, found %r' % (i + 1, lines[i]))
        try:
            N = int(ptoks[1])
        except ValueError:
            raise FormatError('line %d: N not an integer' % (i + 1))
        lo, hi = fnum(ptoks[3]), fnum(ptoks[4])
        ulo, uhi = ulp_of(ptoks[3]), ulp_of(ptoks[4])
        i += 1
        if i >= n or lines[i].strip() != '':
            raise FormatError('line %d: blank line expected after parameter line of %r' % (i + 1, kw))
        i += 1
        rows = []
        for k in range(N):
            if i >= n:
                raise FormatError('section %r: %d rows declared, file ends after %d' % (kw, N, k))
            t = lines[i].split()
            if len(t) != 4:
                raise FormatError('section %r row %d: 4 fields expected, found %r' % (kw, k + 1, lines[i]))
            try:
                idx = int(t[0])
            except ValueError:
                raise FormatError('section %r row %d: index not an integer: %r' % (kw, k + 1, t[0]))
            rows.append((idx, fnum(t[1]), fnum(t[2]), fnum(t[3]), (ulp_of(t[1]), ulp_of(t[2]), ulp_of(t[3]))))
            i += 1
        # after N rows the next non-blank line must start a new section: a 4-number line here means extra rows
        if i < n and lines[i].strip() != '':
            t = lines[i].split()
            if len(t) == 4:
                try:
                    int(t[0]); float(t[1]); float(t[2]); float(t[3])
                    numeric = True
                except ValueError:
                    numeric = False
                if numeric:
                    raise FormatError('section %r: more rows than the declared N=%d' % (kw, N))
        blocks.append(dict(keyword=kw, N=N, lo=lo, hi=hi, ulo=ulo, uhi=uhi, rows=rows))
    return blocks


# ----------------------------------------------------------------------------------------- DL_POLY TABLE
def _fixed_fields(line, width, count, what):
    if len(line) != width * count:
        raise FormatError('%s: record of %d characters expected (%d fields of %d), found %d: %r' % (what, width * count, count, width, len(line), line))
    return [line[k * width:(k + 1) * width] for k in range(count)]


def read_dlpoly_table(text):
    """dict(delpot, cutpot, ngrid, blocks=[dict(a, b, energies=[(v,u)], forces=[(v,u)])])
    DL_POLY TABLE: line 1 title (80 chars); line 2 '(2e15.8,i10)'; per potential '(2a8)' then
    ngrid/4 records '(4e15.8)' of energies then ngrid/4 records of forces."""
    lines = text.split('\n')
    if lines and lines[-1] == '':
        lines = lines[:-1]
    if len(lines) < 2:
        raise FormatError('TABLE needs a title line and a header line')
    if len(lines[0]) > 80 + 20:
        raise FormatError('title line too long')
    h = lines[1]
    if len(h) != 40:
        raise FormatError('header record: 40 characters (2e15.8,i10) expected, found %d: %r' % (len(h), h))
    delpot, cutpot = fnum(h[0:15]), fnum(h[15:30])
    try:
        ngrid = int(h[30:40])
    except ValueError:
        raise FormatError('header ngrid not an integer: %r' % h[30:40])
    if ngrid % 4 != 0:
        raise FormatError('ngrid %d not a multiple of 4' % ngrid)
    nrec = ngrid // 4
    i = 2
    blocks = []
    while i < len(lines):
        hd = lines[i]
        if len(hd) != 16:
            raise FormatError('line %d: potential header (2a8) of 16 characters expected, found %r' % (i + 1, hd))
        a, b = hd[:8].strip(), hd[8:].strip()
        if not a or not b or len(hd[:8].split()) != 1 or len(hd[8:].split()) != 1:
            raise FormatError('line %d: two species labels in 8-character fields expected, found %r' % (i + 1, hd))
        i += 1
        vals = []
        for blockname in ('energy', 'force'):
            arr = []
            for k in range(nrec):
                if i >= len(lines):
                    raise FormatError('%s-%s: file ends inside %s block (record %d of %d)' % (a, b, blockname, k + 1, nrec))
                fs = _fixed_fields(lines[i], 15, 4, '%s-%s %s record %d' % (a, b, blockname, k + 1))
                for f in fs:
                    arr.append((fnum(f), ulp_of(f)))
                i += 1
            vals.append(arr)
        blocks.append(dict(a=a, b=b, energies=vals[0], forces=vals[1]))
    return dict(delpot=delpot, udelpot=ulp_of(h[0:15]), cutpot=cutpot, ucutpot=ulp_of(h[15:30]), ngrid=ngrid, blocks=blocks)


# ----------------------------------------------------------------------------------------- GULP spline library
def read_gulp(text):
    """[dict(a, b, cutoff, rows=[(E, r, (uE, ur))])]: 'spline cubic' / 'A B cutoff' / 'energy separation' rows"""
    lines = text.split('\n')
    if lines and lines[-1] == '':
        lines = lines[:-1]
    i = 0
    out = []
    while i < len(lines):
        if lines[i].strip() != 'spline cubic':
            raise FormatError('line %d: "spline cubic" expected, found %r' % (i + 1, lines[i]))
        i += 1
        if i >= len(lines):
            raise FormatError('spline block without header')
        t = lines[i].split()
        if len(t) != 3:
            raise FormatError('line %d: "speciesA speciesB cutoff" expected, found %r' % (i + 1, lines[i]))
        a, b, cutoff = t[0], t[1], fnum(t[2])
        i += 1
        rows = []
        while i < len(lines) and lines[i].strip() != 'spline cubic':
            t = lines[i].split()
            if len(t) != 2:
                raise FormatError('line %d: "energy separation" row expected, found %r' % (i + 1, lines[i]))
            rows.append((fnum(t[0]), fnum(t[1]), (ulp_of(t[0]), ulp_of(t[1]))))
            i += 1
        out.append(dict(a=a, b=b, cutoff=cutoff, rows=rows))
    return out
