"""Independent readers for the EAM formats, reading the files the way the consuming codes do.

setfl (LAMMPS pair_style eam/alloy, eam/fs, adp): 3 comment lines; 'N el1 .. elN'; 'Nrho drho Nr dr cutoff';
then a whitespace-separated token stream: per element 'Z mass a lattice', Nrho embedding values, Nr (eam/alloy) or
N*Nr (eam/fs) density values; then N(N+1)/2 * Nr values r*phi for (i, j<=i); adp: the same again twice (u, w).
funcfl (pair_style eam): title; 'Z mass a lattice'; 'Nrho drho Nr dr cutoff'; Nrho + Nr + Nr values.
TABEAM (DL_POLY): title; count; blocks 'pair A B n x0 x1' | 'embe A n x0 x1' | 'dens A [B] n x0 x1' each followed by
ceil(n/4) records with exactly n values.
"""
from .pair import FormatError, fnum, ulp_of


def _lines(text):
    lines = text.split('\n')
    if lines and lines[-1] == '':
        lines = lines[:-1]
    return lines


def read_setfl(text, kind='alloy'):
    """kind: 'alloy' | 'fs' | 'adp'.  Returns dict(elements, nrho, drho, nr, dr, cutoff, blocks=[dict(Z, mass, a,
    lattice, embed=[..], dens=[..] or [[..] per element])], pair={(i,j): [...]}, dipole=..., quadrupole=..., rest=n)"""
    lines = _lines(text)
    if len(lines) < 5:
        raise FormatError('setfl: fewer than 5 header lines')
    t = lines[3].split()
    try:
        n = int(t[0])
    except (ValueError, IndexError):
        raise FormatError('setfl line 4: element count expected, found %r' % lines[3])
    els = t[1:]
    if len(els) != n:
        raise FormatError('setfl line 4: %d elements declared, %d names given: %r' % (n, len(els), lines[3]))
    t = lines[4].split()
    if len(t) != 5:
        raise FormatError('setfl line 5: "Nrho drho Nr dr cutoff" expected, found %r' % lines[4])
    try:
        nrho, nr = int(t[0]), int(t[2])
    except ValueError:
        raise FormatError('setfl line 5: integer Nrho / Nr expected, found %r' % lines[4])
    drho, dr, cutoff = fnum(t[1]), fnum(t[3]), fnum(t[4])
    toks = ' '.join(lines[5:]).split()
    pos = [0]

    def take(k, what):
        if pos[0] + k > len(toks):
            raise FormatError('setfl: file ends inside %s (%d values wanted, %d left)' % (what, k, len(toks) - pos[0]))
        out = [fnum(x) for x in toks[pos[0]:pos[0] + k]]
        pos[0] += k
        return out
    blocks = []
    for e in range(n):
        if pos[0] + 4 > len(toks):
            raise FormatError('setfl: file ends before element header of %s' % els[e])
        z, mass, a, lat = toks[pos[0]:pos[0] + 4]
        pos[0] += 4
        try:
            z = int(z)
        except ValueError:
            raise FormatError('setfl: atomic number of %s not an integer: %r' % (els[e], z))
        try:
            float(lat)
            raise FormatError('setfl: lattice type of %s is numeric (%r): element header misaligned' % (els[e], lat))
        except ValueError:
            pass
        blk = dict(el=els[e], Z=z, mass=fnum(mass), a=fnum(a), lattice=lat)
        blk['embed'] = take(nrho, 'embedding function of %s' % els[e])
        if kind == 'fs':
            blk['dens'] = [take(nr, 'density %d of %s' % (j, els[e])) for j in range(n)]
        else:
            blk['dens'] = take(nr, 'density of %s' % els[e])
        blocks.append(blk)

    def tri(what):
        d = {}
        for i in range(n):
            for j in range(i + 1):
                d[(i, j)] = take(nr, '%s block (%s,%s)' % (what, els[i], els[j]))
        return d
    out = dict(elements=els, nrho=nrho, drho=drho, nr=nr, dr=dr, cutoff=cutoff, blocks=blocks, pair=tri('r*phi'))
    if kind == 'adp':
        out['dipole'] = tri('dipole')
        out['quadrupole'] = tri('quadrupole')
    out['rest'] = len(toks) - pos[0]
    if out['rest']:
        raise FormatError('setfl: %d values left over after the last block' % out['rest'])
    return out


def read_funcfl(text):
    lines = _lines(text)
    if len(lines) < 3:
        raise FormatError('funcfl: fewer than 3 header lines')
    t = lines[1].split()
    if len(t) != 4:
        raise FormatError('funcfl line 2: "Z mass a lattice" expected, found %r' % lines[1])
    try:
        z = int(t[0])
    except ValueError:
        raise FormatError('funcfl: Z not an integer')
    h = lines[2].split()
    if len(h) != 5:
        raise FormatError('funcfl line 3: "Nrho drho Nr dr cutoff" expected, found %r' % lines[2])
    nrho, nr = int(h[0]), int(h[2])
    toks = ' '.join(lines[3:]).split()
    if len(toks) != nrho + 2 * nr:
        raise FormatError('funcfl: %d values expected (Nrho + 2 Nr), found %d' % (nrho + 2 * nr, len(toks)))
    for ln in lines[3:]:
        if len(ln.split()) > 5:
            raise FormatError('funcfl: more than 5 values on a line')
    vals = [fnum(x) for x in toks]
    return dict(title=lines[0], Z=z, mass=fnum(t[1]), a=fnum(t[2]), lattice=t[3], nrho=nrho, drho=fnum(h[1]), nr=nr, dr=fnum(h[3]),
                cutoff=fnum(h[4]), embed=vals[:nrho], zr=vals[nrho:nrho + nr], dens=vals[nrho + nr:])


def read_tabeam(text):
    """dict(title, count, blocks=[dict(kind, species=(..), n, x0, x1, values=[(v, u)])])"""
    lines = _lines(text)
    if len(lines) < 2:
        raise FormatError('TABEAM: title and count lines expected')
    try:
        count = int(lines[1].split()[0])
        if len(lines[1].split()) != 1:
            raise ValueError
    except (ValueError, IndexError):
        raise FormatError('TABEAM line 2: integer function count expected, found %r' % lines[1])
    i = 2
    blocks = []
    while i < len(lines):
        t = lines[i].split()
        if not t:
            raise FormatError('TABEAM line %d: blank line' % (i + 1))
        kind = t[0]
        if kind not in ('pair', 'embe', 'dens'):
            raise FormatError('TABEAM line %d: block header (pair|embe|dens) expected, found %r' % (i + 1, lines[i]))
        nsp = len(t) - 4
        if kind == 'pair' and nsp != 2 or kind == 'embe' and nsp != 1 or kind == 'dens' and nsp not in (1, 2):
            raise FormatError('TABEAM line %d: malformed %s header %r' % (i + 1, kind, lines[i]))
        sp = tuple(t[1:1 + nsp])
        try:
            n = int(t[1 + nsp])
        except ValueError:
            raise FormatError('TABEAM line %d: point count not an integer in %r' % (i + 1, lines[i]))
        x0, x1 = fnum(t[2 + nsp]), fnum(t[3 + nsp])
        ux1 = ulp_of(t[3 + nsp])
        i += 1
        vals = []
        nrec = (n + 3) // 4
        for k in range(nrec):
            if i >= len(lines):
                raise FormatError('TABEAM: file ends inside %s %s (record %d of %d)' % (kind, ' '.join(sp), k + 1, nrec))
            ft = lines[i].split()
            want = 4 if k < nrec - 1 else n - 4 * (nrec - 1)
            if ft and ft[0] in ('pair', 'embe', 'dens'):
                raise FormatError('TABEAM: %s %s: %d values declared but only %d found before the next header' % (kind, ' '.join(sp), n, len(vals)))
            if len(ft) != want:
                raise FormatError('TABEAM: %s %s record %d: %d values expected, found %d' % (kind, ' '.join(sp), k + 1, want, len(ft)))
            vals.extend((fnum(x), ulp_of(x)) for x in ft)
            i += 1
        blocks.append(dict(kind=kind, species=sp, n=n, x0=x0, x1=x1, ux1=ux1, values=vals))
    return dict(title=lines[0], count=count, blocks=blocks)


def read_xlsx(data):
    """{sheet name: (header row list, [[row values...], ...])} via openpyxl's reader"""
    import io
    from openpyxl import load_workbook
    wb = load_workbook(io.BytesIO(data), read_only=False)
    out = {}
    for ws in wb.worksheets:
        rows = [list(r) for r in ws.iter_rows(values_only=True)]
        out[ws.title] = (rows[0] if rows else [], rows[1:])
    out['__order__'] = [ws.title for ws in wb.worksheets]
    return out
