"""E2 - stateless history explorer.

A check provides an alphabet of operations and a validity predicate; `histories()` enumerates EVERY valid operation
sequence up to a depth bound (depth-first, shortest first within the engine's ordering).  Each history is executed on
fresh real objects (live cexprtk / wrapt objects do not copy, so prefixes are re-executed) in lock-step with a boring
reference model; observations are compared after every operation.  No implementation state is hashed or merged: the
properties served (C12, C13, C14) are about hidden state, so pruning on "equal states" would assume what is to be shown.
"""


def histories(alphabet, depth, valid=None, min_len=1):
    """all sequences over `alphabet` of length min_len..depth for which every prefix satisfies valid(prefix)"""
    out = []

    def rec(prefix):
        if len(prefix) >= min_len:
            out.append(list(prefix))
        if len(prefix) == depth:
            return
        for op in alphabet:
            cand = prefix + [op]
            if valid is None or valid(cand):
                rec(cand)
    rec([])
    out.sort(key=len)
    return out
