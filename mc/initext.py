"""Reference model of "editing the file by hand": a potable file as an ordered list of sections, each an ordered list of
(key, value) entries, with the edits the statements of C13 / C14 / C15 describe.  Pure text, never imports atsim."""
import copy, re


class Ini(object):
    def __init__(self, sections=None):
        self.sections = sections or []        # [[name, [[key, value], ...]], ...]

    def copy(self):
        return Ini(copy.deepcopy(self.sections))

    def section(self, name):
        for s in self.sections:
            if s[0] == name:
                return s
        return None

    def render(self, sep=' : '):
        out = []
        for name, entries in self.sections:
            out.append('[%s]' % name)
            for k, v in entries:
                out.append('%s%s%s' % (k, sep, v.replace('\n', '\n    ')))       # multi-line values: indented continuation lines
            out.append('')
        return '\n'.join(out) + '\n'

    def items(self):
        return [('%s:%s' % (name, norm(k)), v) for name, entries in self.sections for k, v in entries]

    def to_json(self):
        return copy.deepcopy(self.sections)

    @staticmethod
    def from_json(j):
        return Ini(copy.deepcopy(j))


def norm(key):
    """keys match irrespective of embedded whitespace"""
    return re.sub(r'[ \t]', '', key.strip())


# ------------------------------------------------------------------------------------------ C13: species filtering
FILTERED_SECTIONS = ('Pair', 'EAM-Embed', 'EAM-Density')


def mentions(section, key):
    if section == 'Pair':
        return [s.strip() for s in key.split('-')]
    if section == 'EAM-Density' and '->' in key:
        return [s.strip() for s in key.split('->')]
    return [key.strip()]


def filter_species(ini, species, exclude):
    """delete every pair, embedding and density entry that mentions a species in `species` (exclude) / outside it (include)"""
    out = ini.copy()
    for sec in out.sections:
        if sec[0] not in FILTERED_SECTIONS:
            continue
        kept = []
        for k, v in sec[1]:
            ms = mentions(sec[0], k)
            drop = any(m in species for m in ms) if exclude else any(m not in species for m in ms)
            if not drop:
                kept.append([k, v])
        sec[1] = kept
    return out


# ------------------------------------------------------------------------------------------ C14: override / add / remove
class EditError(Exception):
    pass


def find(ini, section, key):
    section = section.strip()          # blanks around a section name are not part of it ('[Pair ]' is [Pair])
    s = ini.section(section)
    if s is None:
        return None, None
    for i, (k, _v) in enumerate(s[1]):
        if norm(k) == norm(key):
            return s, i
    return s, None


def override(ini, section, key, value):
    s, i = find(ini, section, key)
    if i is None:
        raise EditError('missing')
    s[1][i][1] = value


def remove(ini, section, key):
    s, i = find(ini, section, key)
    if i is None:
        raise EditError('missing')
    del s[1][i]
    if not s[1]:
        ini.sections.remove(s)


def add(ini, section, key, value):
    s, i = find(ini, section, key)
    if i is not None:
        raise EditError('exists')
    if s is None:
        s = [section.strip(), []]
        ini.sections.append(s)
    s[1].append([norm(key), value])
