"""Access routes into the implementation under test.

R1  tabulation classes            .write(fp)
R2  writePotentials / writeSetFL / writeTABEAM / ... procedural API
R3  Configuration().read(StringIO(ini))  (+ .write)
R4  potable main() in-process (sys.argv patched, SystemExit caught), OUTPUT_FILE in a scratch dir
"""
import os, sys, io, shutil, tempfile, functools, contextlib, copy

from . import boot

_scratch = None


def scratch():
    global _scratch
    if _scratch is None or not os.path.isdir(_scratch) or _scratch_pid != os.getpid():
        _new_scratch()
    return _scratch


_scratch_pid = None


def _new_scratch():
    global _scratch, _scratch_pid
    base = '/dev/shm' if os.path.isdir('/dev/shm') and os.access('/dev/shm', os.W_OK) else None
    root = os.environ.get('VERIF_SCRATCH_ROOT')          # (set by the engine's main process, which removes the whole tree when the run ends:
    if root and os.path.isdir(root):                     #  exit handlers of forked pool workers do not run)
        base = root
    _scratch = tempfile.mkdtemp(prefix='verif-mc-', dir=base)
    _scratch_pid = os.getpid()
    import atexit
    atexit.register(shutil.rmtree, _scratch, True)


# ----------------------------------------------------------------------------- Python API objects from a defn
class NoAPI(Exception):
    pass


def api_item(it, env=None):
    import atsim.potentials as ap
    from atsim.potentials import potentialforms as pf
    if 'form' in it:
        return getattr(pf, it['form'])(*it['params'])
    if 'py' in it:
        from . import models
        return models.py_callables()[it['py']][0]()
    if 'table' in it:
        from . import models
        from atsim.potentials.tableforms import Cubic_Spline_Table_Form
        return Cubic_Spline_Table_Form(*models.TABLE_DATA[it['table']])
    if 'custom' in it:
        raise NoAPI()
    m = it['mod']
    if m in ('sum', 'product', 'pow'):
        fn = {'sum': ap.plus, 'product': ap.product, 'pow': ap.pow}[m]
        return functools.reduce(fn, [api_defn(a, env) for a in it['args']])
    if m == 'spline':
        from atsim.potentials.spline import SplinePotential, Buck4_SplinePotential
        s, e = api_item(it['start'], env), api_item(it['end'], env)
        if it['kind'] == 'exp_spline':
            return SplinePotential(s, e, it['detach'][1], it['attach'][1])
        return Buck4_SplinePotential(s, e, it['detach'][1], it['attach'][1], it['rmin'])
    raise NoAPI()


def api_defn(d, env=None):
    """Python-API composition of the same pieces (unmarked single range == the bare callable)"""
    from atsim.potentials import create_Multi_Range_Potential_Form, Multi_Range_Defn
    rg = d['ranges']
    if len(rg) == 1 and rg[0][0] is None:
        return api_item(rg[0][2], env)
    defs = []
    for marker, start, it in rg:
        if marker is None:
            marker, start = '>', 0.0
        defs.append(Multi_Range_Defn(marker, start, api_item(it, env)))
    return create_Multi_Range_Potential_Form(*defs)


def apiize(d):
    """reference-side view of api_defn: an unmarked single range has no lower bound in the Python API"""
    d = copy.deepcopy(d)
    rg = d['ranges']
    if len(rg) == 1 and rg[0][0] is None:
        rg[0][0], rg[0][1] = '>=', float('-inf')
    for _m, _s, it in rg:
        if 'args' in it:
            it['args'] = [apiize(a) for a in it['args']]
    return d


# ----------------------------------------------------------------------------- R3 / R4
def config_read(ini_text):
    from atsim.potentials.config import Configuration
    return Configuration().read(io.StringIO(ini_text))


def write_tabulation(tab):
    """bytes/str written by tab.write to a fresh in-memory sink"""
    binary = tab.target.startswith('excel')
    fp = io.BytesIO() if binary else io.StringIO()
    tab.write(fp)
    return fp.getvalue()


class PotableResult(object):
    def __init__(self, status, stdout, stderr, out_exists, out_bytes, exc=None):
        self.status, self.stdout, self.stderr = status, stdout, stderr
        self.out_exists, self.out_bytes, self.exc = out_exists, out_bytes, exc

    @property
    def config_error(self):
        return self.status == 2 and 'configuration error - ' in self.stderr


PREFILL = ('STALE CONTENT OF AN EARLIER TABULATION 0123456789 ' * 2 + '\n') * 3000      # ~300 kB


def potable(ini_text, args=(), want_output=True, binary=False, name='model.aspot', prefill=False, options_first=False):
    """Run potable main() in-process.  Returns PotableResult; a non-SystemExit exception is kept in .exc"""
    from atsim.potentials.tools import potable as P
    d = tempfile.mkdtemp(prefix='p', dir=scratch())
    cfg = os.path.join(d, name)
    with open(cfg, 'wb' if isinstance(ini_text, bytes) else 'w') as f:
        f.write(ini_text)
    out = os.path.join(d, 'OUT')
    real = None
    if prefill == 'symlink':
        # OUTPUT_FILE is a symbolic link to a (longer, older) file shared with another directory
        real = os.path.join(d, 'shared-table.real')
        with open(real, 'w') as f:
            f.write(PREFILL)
        os.symlink(real, out)
    elif prefill:
        content = PREFILL if prefill is True else prefill
        with open(out, 'wb' if isinstance(content, bytes) else 'w') as f:
            f.write(content)
    argv = ['potable'] + list(args) + [cfg] + ([out] if want_output else [])
    # nargs='*' options swallow positionals: put positionals first when such options are used
    if any(a.startswith('-') for a in args) and not options_first:
        argv = ['potable', cfg] + ([out] if want_output else []) + list(args)
    so, se = io.StringIO(), io.StringIO()
    old_argv = sys.argv
    status, exc = None, None
    try:
        sys.argv = argv
        with contextlib.redirect_stdout(so), contextlib.redirect_stderr(se):
            try:
                P.main()
                status = 0
            except SystemExit as e:
                status = e.code if isinstance(e.code, int) else (0 if e.code is None else 1)
            except BaseException as e:  # noqa
                exc = e
                status = -1
    finally:
        sys.argv = old_argv
    exists = os.path.exists(out)
    link_replaced = real is not None and not os.path.islink(out)
    if link_replaced:
        out = real           # what the other users of the shared file see
    data = None
    if exists:
        with open(out, 'rb') as f:
            data = f.read()
        if not binary:
            data = data.decode('utf-8', 'replace')
    shutil.rmtree(d, True)
    res = PotableResult(status, so.getvalue(), se.getvalue(), exists, data, exc)
    res.link_replaced = link_replaced
    return res
