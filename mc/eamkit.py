"""Shared machinery for the EAM checks (C03 setfl, C04 Finnis-Sinclair routing, C05 TABEAM, C19 ADP/excel/funcfl).

A model descriptor is a JSON-able dict
   fs        bool                      Finnis-Sinclair (densities per ordered pair) or standard EAM
   embed     [el, ...]                 [EAM-Embed] entries in declaration order
   dens      [key, ...]                [EAM-Density] entries in declaration order; key 'Al' or 'Al->Cu' (central->neighbour)
   pairs     [[a, b], ...]             [Pair] entries in listing order, orientation as written
   dip/quad  [[a, b], ...]             ADP dipole / quadrupole entries (adp only)
   species   'builtin'|'override'|'custom'
   nr, cutoff, nrho, cutoff_rho
Every function is *injective in its identity*: embedding, density (per element / per ordered pair), pair, dipole and
quadrupole functions all have distinct parameters derived from the canonical indices of the species involved, so
any mis-routing, transposition or wrong zero-fill changes numbers.
"""
import io, itertools, collections.abc

from . import routes as R
from .refmodel import expr as X
from .refmodel.expr import form, D

UNIVERSE = ['Al', 'Cu', 'Fe', 'Ni']          # enumerated exhaustively
BIG = ['Al', 'Cu', 'Fe', 'Ni', 'Ag', 'Au']   # structured 5- and 6-element models
CUSTOM = ['Xx', 'A', 'B', 'Zq']
# labels that are anagrams of each other when two are joined (Fe2+Cr3 / Fe3+Cr2), labels of 8 characters (the widest the fixed-width formats hold)
CUSTOM2 = ['Fe2', 'Fe3', 'Cr2', 'Cr3', 'Ce_core4', 'O_shell2', 'Fe10', 'Si9', 'Si10', 'Li', 'Li+']      # (... and labels whose numbers differ in digit count)
FOREIGN = ['Mg', 'O']                       # species of pair potentials that have no EAM functions (hybrid pair/EAM models)
BUILTIN = {'Al': (13, 26.981538), 'Cu': (29, 63.546), 'Fe': (26, 55.845), 'Ni': (28, 58.6934), 'Ag': (47, 107.8682), 'Au': (79, 196.96655)}
# (values with more digits than %f prints and values in scientific notation: the element line must not lose them)
OVERRIDE = {'Al': {'atomic_mass': 26.9815385123}, 'Cu': {'lattice_constant': 3.6149671234}, 'Fe': {'lattice_type': 'bcc', 'atomic_number': 99},
            'Ni': {'atomic_mass': 4.48e-26, 'lattice_constant': 3.52e-1, 'lattice_type': 'hcp'}}
CUSTOM_DATA = {'Xx': {'atomic_number': 119, 'atomic_mass': 300.5}, 'A': {'atomic_number': 1, 'atomic_mass': 1.25, 'lattice_constant': 2.5},
               'B': {'atomic_number': 2, 'atomic_mass': 4.5, 'lattice_type': 'bcc'},
               'Zq': {'atomic_number': 7, 'atomic_mass': 14.0, 'lattice_constant': 4.25, 'lattice_type': 'sc'},
               # element lines of very different lengths follow each other in either order
               'Fe2': {'atomic_number': 26, 'atomic_mass': 55.845, 'lattice_constant': 5.4307123, 'lattice_type': 'diamond'},
               'Fe3': {'atomic_number': 3, 'atomic_mass': 6.0, 'lattice_constant': 3.0, 'lattice_type': 'bcc'},
               'Cr2': {'atomic_number': 24, 'atomic_mass': 51.9961, 'lattice_type': 'sc'},
               'Cr3': {'atomic_number': 124, 'atomic_mass': 351.99615, 'lattice_constant': 12.345678, 'lattice_type': 'hexagonal'},
               'Ce_core4': {'atomic_number': 58, 'atomic_mass': 140.116, 'lattice_constant': 5.41, 'lattice_type': 'diamond'},
               'O_shell2': {'atomic_number': 8, 'atomic_mass': 15.999},
               'Fe10': {'atomic_number': 26, 'atomic_mass': 55.845, 'lattice_constant': 2.87, 'lattice_type': 'bcc'},
               'Li': {'atomic_number': 3, 'atomic_mass': 6.94}, 'Li+': {'atomic_number': 3, 'atomic_mass': 6.9395, 'lattice_type': 'bcc'},
               'Si9': {'atomic_number': 14, 'atomic_mass': 28.0855}, 'Si10': {'atomic_number': 14, 'atomic_mass': 28.1, 'lattice_type': 'diamond'}}


def idx(el):
    if el in BIG:
        return BIG.index(el)
    if el in FOREIGN:
        return 6 + FOREIGN.index(el)
    if el in CUSTOM2:
        return CUSTOM2.index(el)
    return CUSTOM.index(el)


# models with m['mag'] = 'extreme' use functions whose values leave the range of two-digit exponents (1e-130 .. 1e120) inside the tabulated range
_MAG = [None]


class magnitudes(object):
    def __init__(self, m):
        self.mag = m.get('mag')

    def __enter__(self):
        self.old, _MAG[0] = _MAG[0], self.mag

    def __exit__(self, *a):
        _MAG[0] = self.old


def embed_defn(el):
    i = idx(el)
    if _MAG[0] == 'extreme':
        return D(('>=', 0.0, form('polynomial', 0.0, 1e118 * (i + 1))))
    return D(('>=', 0.0, form('polynomial', 0.1 * (i + 1), -(1.0 + 0.3 * i), 0.01 * (i + 1))))


def dens_defn(el):
    i = idx(el)
    if _MAG[0] == 'extreme':
        return D(('>=', 0.0, form('exp_spline', 0.1 * i, -45.0, 0.0, 0.0, 0.0, 0.0, 0.0)))
    # (bornmayer/buck divide by r**6 even when C = 0, so forms that are regular at r = 0 in the implementation are used)
    f = form('exp_spline', 0.7 + 0.2 * i, -(0.9 + 0.1 * i), 0.01 * (i + 1), 0.0, 0.0, 0.0, 0.05 * i)
    return D(('>=', 0.0, f)) if i % 2 == 0 else D(f)


def dens_fs_defn(a, b):
    """three shapes, all injective in (a, b): a coded single-range function; one COMMON function switched off at a coded separation
    (entries that differ only in their range boundaries); a function that is explicitly zero at short range and coded beyond"""
    k = 8 * idx(a) + idx(b)
    if _MAG[0] == 'extreme':
        return D(('>=', 0.0, form('exp_spline', 0.01 * k, -45.0, 0.0, 0.0, 0.0, 0.0, 0.0)))
    c = 1.0 + 0.37 * k
    coded = form('exp_spline', 0.1 * c, -1.1, 0.02, 0.0, 0.0, 0.0, 0.0)
    if k % 3 == 1:
        return D(('>=', 0.0, form('exp_spline', 0.5, -1.1, 0.02, 0.0, 0.0, 0.0, 0.0)), ('>=', 0.35 + 0.045 * k, form('zero')))
    if k % 3 == 2:
        return D(('>=', 0.0, form('zero')), ('>=', 0.15 + 0.02 * k, coded), ('>=', 40.0, form('zero')))
    return D(('>=', 0.0, coded))


def _pk(a, b):
    i, j = sorted((idx(a), idx(b)))
    return 8 * i + j


def pair_defn(a, b):
    k = _pk(a, b)
    if _MAG[0] == 'extreme':
        return D(('>=', 0.0, form('exp_spline', 0.05 * k, 42.0, 0.0, 0.0, 0.0, 0.0, 0.0)))
    return D(('>=', 0.0, form('morse', 1.2 + 0.02 * k, 2.0 + 0.01 * k, 0.3 + 0.01 * k)))


def dip_defn(a, b):
    k = _pk(a, b)
    return D(('>=', 0.0, form('polynomial', 0.5 + 0.02 * k, -0.2, 0.01)))


def quad_defn(a, b):
    k = _pk(a, b)
    return D(('>=', 0.0, form('morse', 0.75 + 0.02 * k, 1.3, 0.2 + 0.002 * k)))


ZERO = D(('>=', float('-inf'), form('zero')))


# -------------------------------------------------------------------------------------- model facts
def model_elements(m):
    """set of elements the model is about: embedding species + every species mentioned by a density entry"""
    s = list(m['embed'])
    for k in m['dens']:
        for e in k.split('->'):
            if e not in s:
                s.append(e)
    return s


def declared_pair(m, a, b, key='pairs'):
    for x, y in m.get(key, []):
        if (x, y) == (a, b) or (x, y) == (b, a):
            return True
    return False


def ref_functions(m, semantics):
    """reference callables r -> Jet with the route's semantics ('api' or 'cfg')"""
    with magnitudes(m):
        return _ref_functions(m, semantics)


def _ref_functions(m, semantics):
    def wrap(d):
        d2 = R.apiize(d) if semantics == 'api' else d
        return lambda r: X.ev_defn(d2, r)
    zero = wrap(ZERO)
    els = model_elements(m)
    F = {e: (wrap(embed_defn(e)) if e in m['embed'] else zero) for e in els}
    if m['fs']:
        rho = {}
        for a in els:
            for b in els:
                rho[(a, b)] = wrap(dens_fs_defn(a, b)) if ('%s->%s' % (a, b)) in m['dens'] else zero
                if m.get('shared_density'):
                    rho[(a, b)] = wrap(dens_defn(b))        # a conventional EAM model in Finnis-Sinclair form: the density depends on the neighbour only
    else:
        rho = {e: (wrap(dens_defn(e)) if e in m['dens'] else zero) for e in els}

    def phi(a, b, key='pairs', mk=pair_defn):
        with magnitudes(m):
            return wrap(mk(a, b)) if declared_pair(m, a, b, key) else zero
    return dict(F=F, rho=rho, phi=phi, u=lambda a, b: phi(a, b, 'dip', dip_defn), w=lambda a, b: phi(a, b, 'quad', quad_defn))


def ref_meta(m, el, route):
    """(Z, mass, lattice constant, lattice type) with precedence [Species] > built-in table > (0.0, fcc)"""
    sp = m.get('species', 'builtin')
    if sp == 'custom':
        d = dict(CUSTOM_DATA[el])
    else:
        d = dict(atomic_number=BUILTIN[el][0], atomic_mass=BUILTIN[el][1])
        if sp == 'override':
            d.update(OVERRIDE.get(el, {}))
    return (d['atomic_number'], d['atomic_mass'], d.get('lattice_constant', 0.0), d.get('lattice_type', 'fcc'))


def all_pairs(m):
    """[Pair] entries as listed: the model's pairs interleaved with its 'foreign' pairs (pair potentials involving a species that
    has no EAM functions - they belong to another pair style of a hybrid model and are not part of the EAM file)"""
    out = [list(p) for p in m['pairs']]
    for k, p in enumerate(m.get('foreign', [])):
        out.insert(min(len(out), 2 * k), list(p))
    return out


COMMENTS = [[], ['one comment'], ['first', 'second'], ['first', 'second', 'third'], ['1', '2', '3', '4', '5']]
TITLES = ['', 'pair potentials for the Al-Cu system', 'density functional fit, 2019', 'embedded atom model of Al', 'x' * 120, 'Title']


def api_option_models(fs):
    """rarely used options of the procedural writers (comments=, title=) and EAMPotential objects whose functions are assigned after construction"""
    out = []
    for i, els in enumerate((['Al'], ['Cu', 'Al'], ['Fe', 'Al', 'Cu'])):
        up = unordered_pairs(els)
        dens = ['%s->%s' % (a, b) for a in els for b in els][::2] if fs else list(els)
        base = dict(fs=fs, embed=list(els), dens=dens, pairs=[list(p) for p in orient(up[::2], i % 3)], species='builtin', nr=3 + i, cutoff=2.5, nrho=2 + i, cutoff_rho=50.0)
        for j, c in enumerate(COMMENTS):
            out.append(dict(base, comments=c, comments_tuple=bool((i + j) % 2)))
        for t in TITLES:
            out.append(dict(base, title=t))
        if len(els) > 1:
            # the caller's list names every interaction both ways round (for a in species: for b in species: Potential(a, b, ...)) - one block per unordered pair
            out.append(dict(base, pairs=[list(p) for p in up] + [[b_, a_] for a_, b_ in up if a_ != b_], both_ways=True))
            out.append(dict(base, pairs=[[b_, a_] for a_, b_ in up if a_ != b_] + [list(p) for p in up], both_ways=True))
        out.append(dict(base, assign_after=True))
        out.append(dict(base, numpy_returns=True))
        out.append(dict(base, guarded=True))
        out.append(dict(base, list_sink=True))
        for hc in (0.5, 0.8, 1.0, 1.25):
            out.append(dict(base, header_cutoff=hc))
        if fs:
            allp = ['%s->%s' % (a, b) for a in els for b in els]
            out.append(dict(base, dens=allp, lazy_mapping=True))
            out.append(dict(base, dens=allp[1:], lazy_mapping=True))
            out.append(dict(base, dens=allp, lazy_mapping='missing'))
            out.append(dict(base, dens=allp[1:], lazy_mapping='missing'))
            out.append(dict(base, dens=allp, dict_filled_later=True))
            out.append(dict(base, dens=allp, shared_density='same-object'))
            out.append(dict(base, dens=allp, shared_density='equal-copies'))
    return out


def species_layout_models(fs):
    """[Species] written property by property or interleaved instead of species by species"""
    out = []
    for sp, pool in (('custom', CUSTOM), ('override', UNIVERSE), ('custom', CUSTOM2[:4])):
        for n in (2, 3):
            for els in list(itertools.permutations(pool[:4], n))[::3]:
                for layout in ('property-major', 'interleaved'):
                    up = unordered_pairs(els)
                    dens = ['%s->%s' % (a, b) for a in els for b in els][::2] if fs else list(els)
                    out.append(dict(fs=fs, embed=list(els), dens=dens, pairs=[list(p) for p in orient(up[::2], 1)], species=sp, species_layout=layout,
                                    nr=4, cutoff=2.5, nrho=3, cutoff_rho=50.0))
    return out


def label_models(fs, tier):
    """models that differ from the enumerated ones only in their LABELS / in foreign pair potentials"""
    out = []
    k = 0

    def mk(els, species, foreign=()):
        up = unordered_pairs(els)
        pairs = orient([p for i, p in enumerate(up) if (k >> i) & 1 or len(up) < 3], k % 3)
        if fs:
            allp = ['%s->%s' % (a, b) for a in els for b in els]
            dens = [p for i, p in enumerate(allp) if (i + k) % 3]
        else:
            dens = list(els) if k % 2 else list(reversed(els))
        return dict(fs=fs, embed=list(els), dens=dens, pairs=[list(p) for p in pairs], species=species, foreign=[list(p) for p in foreign],
                    nr=3 + k % 3, cutoff=2.5, nrho=2 + k % 4, cutoff_rho=50.0)
    for n in (2, 3, 4):
        for els in itertools.permutations(CUSTOM2[:4], n):
            k += 1
            if n == 4 and tier == 'quick' and k % 3:
                continue
            out.append(mk(list(els), 'custom'))
    for n in (2, 3):
        for trio in (['Fe2', 'Fe10', 'O_shell2'], ['Si9', 'Si10', 'Fe2'], ['Li', 'Li+', 'O_shell2']):    # (... and a label that is another one plus a character sorting below '-')
            for els in itertools.permutations(trio, n):
                k += 1
                m_ = mk(list(els), 'custom')
                m_['pairs'] = [list(p) for p in orient(unordered_pairs(els), k % 3)]      # every pair declared
                out.append(m_)
    for n in (1, 2, 3):
        for els in itertools.permutations(['Ce_core4', 'O_shell2', 'Cr3'], n):
            k += 1
            out.append(mk(list(els), 'custom'))
    for n in (1, 2, 3):
        for els in itertools.permutations(UNIVERSE[:3], n):
            for fp in ([['Mg', 'O']], [['O', 'O'], [els[0], 'O']], [['Mg', els[-1]], ['O', 'Mg'], ['Mg', 'Mg'], ['O', els[0]]]):
                k += 1
                out.append(mk(list(els), 'builtin', fp))
    return out


# -------------------------------------------------------------------------------------- ini rendering
def eam_ini(m, target, sep=' : '):
    with magnitudes(m):
        return _eam_ini(m, target, sep)


def _eam_ini(m, target, sep=' : '):
    out = ['[Tabulation]', 'target%s%s' % (sep, target), 'nr%s%d' % (sep, m['nr']), 'cutoff%s%s' % (sep, X.num(m['cutoff'])),
           'nrho%s%d' % (sep, m['nrho']), 'cutoff_rho%s%s' % (sep, X.num(m['cutoff_rho'])), '']
    sp = m.get('species', 'builtin')
    if sp != 'builtin':
        out.append('[Species]')
        lines = []
        for el in model_elements(m):
            data = CUSTOM_DATA[el] if sp == 'custom' else OVERRIDE.get(el, {})
            for k, v in data.items():
                lines.append((el, k, '%s.%s%s%s' % (el, k, sep, v)))
        layout = m.get('species_layout', 'species-major')
        if layout == 'property-major':           # all atomic numbers, then all masses, ...
            lines.sort(key=lambda t: (t[1], model_elements(m).index(t[0])))
        elif layout == 'interleaved':
            lines = lines[::2] + lines[1::2][::-1]
        out.extend(l for _e, _k, l in lines)
        out.append('')
    out.append('[EAM-Embed]')
    for el in m['embed']:
        out.append('%s%s%s' % (el, sep, X.render_defn(embed_defn(el))))
    out.append('')
    out.append('[EAM-Density]')
    for k in m['dens']:
        d = dens_fs_defn(*k.split('->')) if '->' in k else dens_defn(k)
        out.append('%s%s%s' % (k, sep, X.render_defn(d)))
    out.append('')
    out.append('[Pair]')
    for a, b in all_pairs(m):
        out.append('%s-%s%s%s' % (a, b, sep, X.render_defn(pair_defn(a, b))))
    out.append('')
    if 'dip' in m:
        dsec = ['[EAM-ADP-Dipole]'] + ['%s-%s%s%s' % (a, b, sep, X.render_defn(dip_defn(a, b))) for a, b in m['dip']] + ['']
        qsec = ['[EAM-ADP-Quadrupole]'] + ['%s-%s%s%s' % (a, b, sep, X.render_defn(quad_defn(a, b))) for a, b in m['quad']] + ['']
        if m.get('adp_order') == 'quad-first':
            out = qsec + out + dsec            # the quadrupole section leads the file, the dipole section ends it
        else:
            out += dsec + qsec
    return '\n'.join(out) + '\n'


# -------------------------------------------------------------------------------------- API objects
def big_grid_models(fs):
    """tables of several MiB / more than 2**14 rows per function (the documentation's own examples use nrho = 50000)"""
    out = []
    for els, nr, nrho in ((['Al', 'Cu'], 20001, 50000), (['Cu', 'Al', 'Ni'], 16385, 16384), (BIG[:5], 10000, 10000)):
        up = unordered_pairs(els)
        if fs:
            dens = ['%s->%s' % (a, b) for a in els for b in els][::2]
        else:
            dens = list(els)
        out.append(dict(fs=fs, embed=list(els), dens=dens, pairs=[list(p) for p in orient(up[::2], 2)], species='builtin',
                        nr=nr, cutoff=6.5, nrho=nrho, cutoff_rho=100.0))
    return out


def extreme_models(fs):
    """values of 1e-130 .. 1e120 inside the tabulated range (three-digit exponents); tables of a million rows (seven-digit counts)"""
    out = []
    for els in (['Cu'], ['Al', 'Ni']):
        dens = ['%s->%s' % (a, b) for a in els for b in els] if fs else list(els)
        out.append(dict(fs=fs, embed=list(els), dens=dens, pairs=[[els[0], els[-1]]], species='builtin', nr=14, cutoff=6.5, nrho=5, cutoff_rho=100.0, mag='extreme'))
    out.append(dict(fs=fs, embed=['Cu'], dens=(['Cu->Cu'] if fs else ['Cu']), pairs=[], species='builtin', nr=3, cutoff=2.5, nrho=1000001, cutoff_rho=100.0, stride=9973))
    out.append(dict(fs=fs, embed=['Al'], dens=(['Al->Al'] if fs else ['Al']), pairs=[['Al', 'Al']], species='builtin', nr=1234567, cutoff=6.5, nrho=3, cutoff_rho=50.0, stride=9973))
    return out


class ListSink(list):
    """a minimal file-like sink: a list of the chunks written (empty, hence falsy, until something is written)"""
    write = list.append

    def getvalue(self):
        return ''.join(self)


class MissingDensities(dict):
    """a dict whose entries come into being on first look-up (a defaultdict-style mixing rule with a NON-zero default)"""
    def __init__(self, el, others, m, api_defn):
        dict.__init__(self)
        self.el, self.others, self.m, self.api_defn = el, list(others), m, api_defn

    def __missing__(self, b):
        if b not in self.others:
            raise KeyError(b)
        from atsim.potentials import potentialforms as pf
        f = self.api_defn(dens_fs_defn(self.el, b)) if ('%s->%s' % (self.el, b)) in self.m['dens'] else pf.zero()
        self[b] = f
        return f


class LazyDensities(collections.abc.Mapping):
    """a density 'dictionary' that derives the function of a pair when it is asked for (a mixing rule): every look-up returns a NEW callable"""
    def __init__(self, el, others, m, api_defn):
        self.el, self.others, self.m, self.api_defn = el, list(others), m, api_defn

    def __getitem__(self, b):
        if b not in self.others:
            raise KeyError(b)
        from atsim.potentials import potentialforms as pf
        f = self.api_defn(dens_fs_defn(self.el, b)) if ('%s->%s' % (self.el, b)) in self.m['dens'] else pf.zero()
        return lambda r: f(r)              # a fresh temporary each time

    def __iter__(self):
        return iter(self.others)

    def __len__(self):
        return len(self.others)


def api_objects(m, order=None):
    with magnitudes(m):
        return _api_objects(m, order)


def _api_objects(m, order=None):
    """(pair potentials, EAMPotential list in `order` (default: model_elements order), dipoles, quadrupoles).
    In the Python API the user states everything explicitly: undeclared functions are explicit zero() callables."""
    import atsim.potentials as ap
    from atsim.potentials import potentialforms as pf
    els = order or model_elements(m)
    eam = []
    later = []
    api_defn = R.api_defn
    if m.get('guarded'):
        # functions written with python-float semantics in mind: the singular term is guarded by try/except ZeroDivisionError
        def api_defn(d):   # noqa
            f = R.api_defn(d)

            def g(x):
                try:
                    extra = 1e-3 / x - 1e-3 / x
                except ZeroDivisionError:
                    extra = 0.0
                return f(x) + extra
            return g
    if m.get('numpy_returns'):
        # callables built on numpy / scipy (interp1d ...) return 0-d arrays
        import numpy

        def api_defn(d):   # noqa
            f = R.api_defn(d)
            return lambda x: numpy.array(f(x))
    shared = dict((b, api_defn(dens_defn(b))) for b in els) if m.get('shared_density') else None
    for el in els:
        Z, mass, a, lat = ref_meta(m, el, 'api')
        emb = api_defn(embed_defn(el)) if el in m['embed'] else pf.zero()
        if shared is not None:
            # ONE dictionary object handed to every EAMPotential ('same-object'), or one dictionary per potential holding the same function objects
            dens = shared if m['shared_density'] == 'same-object' else dict(shared)
        elif m['fs'] and m.get('lazy_mapping') == 'missing':
            dens = MissingDensities(el, [b for b in els], m, api_defn)
        elif m['fs'] and m.get('lazy_mapping'):
            dens = LazyDensities(el, [b for b in els], m, api_defn)
        elif m['fs']:
            dens = {}
            for b in els:
                dens[b] = api_defn(dens_fs_defn(el, b)) if ('%s->%s' % (el, b)) in m['dens'] else pf.zero()
            for b in m.get('extra_dict_species', []):
                # EAMPotential objects re-used from a larger system: their dictionaries hold more species than are tabulated
                dens[b] = R.api_defn(dens_fs_defn(el, b))
        else:
            dens = api_defn(dens_defn(el)) if el in m['dens'] else pf.zero()
        if m.get('assign_after'):
            # the object is created with place-holder functions; the real ones are assigned to its public attributes afterwards
            e = ap.EAMPotential(el, Z + 1, 2.0 * mass, pf.constant(7.0), (dict((b, pf.constant(3.0)) for b in dens) if m['fs'] else pf.constant(3.0)), 9.9, 'sc')
            e.atomicNumber, e.mass, e.latticeConstant, e.latticeType = Z, mass, a, lat
            e.embeddingFunction = emb
            e.electronDensityFunction = dens
            eam.append(e)
            continue
        if m['fs'] and m.get('dict_filled_later') and isinstance(dens, dict):
            # the caller keeps its dictionary and fills / replaces entries after the EAMPotential objects exist (a fitting loop)
            final = dict(dens)
            for b in list(dens):
                dens[b] = pf.constant(3.0)
            eam.append(ap.EAMPotential(el, Z, mass, emb, dens, a, lat))
            later.append((dens, final))
            continue
        eam.append(ap.EAMPotential(el, Z, mass, emb, dens, a, lat))
    for dens, final in later:
        dens.update(final)
    pots = [ap.Potential(a, b, api_defn(pair_defn(a, b))) for a, b in all_pairs(m)]
    dip = [ap.Potential(a, b, R.api_defn(dip_defn(a, b))) for a, b in m.get('dip', [])]
    quad = [ap.Potential(a, b, R.api_defn(quad_defn(a, b))) for a, b in m.get('quad', [])]
    return pots, eam, dip, quad


CLS = {'setfl': 'SetFL_EAMTabulation', 'setfl_fs': 'SetFL_FS_EAMTabulation', 'DL_POLY_EAM': 'TABEAM_EAMTabulation',
       'DL_POLY_EAM_fs': 'TABEAM_FinnisSinclair_EAMTabulation', 'excel_eam': 'Excel_EAMTabulation',
       'excel_eam_fs': 'Excel_FinnisSinclair_EAMTabulation', 'eam_adp': 'ADP_EAMTabulation'}
PROC = {'setfl': 'writeSetFL', 'setfl_fs': 'writeSetFLFinnisSinclair', 'DL_POLY_EAM': 'writeTABEAM',
        'DL_POLY_EAM_fs': 'writeTABEAMFinnisSinclair'}


def produce(m, target, route, spelling=None):
    """output of `route` for `target`; for API routes the element order is model_elements(m)"""
    import atsim.potentials as ap
    from atsim.potentials import eam_tabulation as ET
    binary = target.startswith('excel')
    if route in ('cls', 'proc'):
        pots, eam, dip, quad = api_objects(m)
        fp = io.BytesIO() if binary else (ListSink() if m.get('list_sink') else io.StringIO())
        if route == 'cls' or target not in PROC:
            cls = getattr(ET, CLS[target])
            if target == 'eam_adp':
                tab = cls(pots, eam, dip, quad, m['cutoff'], m['nr'], m['cutoff_rho'], m['nrho'])
            else:
                tab = cls(pots, eam, m['cutoff'], m['nr'], m['cutoff_rho'], m['nrho'])
            tab.write(fp)
        else:
            drho = m['cutoff_rho'] / float(m['nrho'] - 1)
            dr = m['cutoff'] / float(m['nr'] - 1)
            kw = {}
            if 'comments' in m and target.startswith('setfl'):
                kw['comments'] = tuple(m['comments']) if m.get('comments_tuple') else list(m['comments'])
            if 'title' in m and target.startswith('DL_POLY'):
                kw['title'] = m['title']
            if 'header_cutoff' in m and target.startswith('setfl'):
                kw['cutoff'] = m['header_cutoff'] * m['cutoff']          # the cutoff= option only sets the 5th header number
            getattr(ap, PROC[target])(m['nrho'], drho, m['nr'], dr, eam, pots, fp, **kw)
        return fp.getvalue()
    ini = eam_ini(m, spelling or target)
    if route == 'cfg':
        return R.write_tabulation(R.config_read(ini))
    res = R.potable(ini, binary=binary, prefill='symlink' if m['nr'] % 3 == 0 else True)
    if getattr(res, 'link_replaced', False) and res.status == 0 and res.out_bytes == R.PREFILL:
        raise RuntimeError('OUTPUT_FILE was a symbolic link: potable replaced the link and left the file it pointed to unchanged')
    if res.exc is not None:
        raise res.exc
    if res.status != 0:
        raise RuntimeError('potable exit status %r: %s' % (res.status, res.stderr[-300:]))
    return res.out_bytes


def semantics(route):
    return 'api' if route in ('cls', 'proc') else 'cfg'


# -------------------------------------------------------------------------------------- generators
def ordered_subsets(universe, sizes):
    for k in sizes:
        for p in itertools.permutations(universe, k):
            yield list(p)


def unordered_pairs(els):
    s = sorted(els, key=idx)
    return [(s[i], s[j]) for i in range(len(s)) for j in range(i, len(s))]


def orders(seq, full_upto=3):
    """every listing order for short lists; rotations + reversal beyond"""
    seq = list(seq)
    if len(seq) <= full_upto:
        return [list(p) for p in itertools.permutations(seq)]
    out = []
    for k in range(len(seq)):
        out.append(seq[k:] + seq[:k])
    out.append(seq[::-1])
    return out


def orient(pairs, pattern):
    """pattern 0: as sorted; 1: every off-diagonal pair reversed; 2: alternate"""
    out = []
    for k, (a, b) in enumerate(pairs):
        flip = (pattern == 1) or (pattern == 2 and k % 2 == 0)
        out.append([b, a] if (flip and a != b) else [a, b])
    return out


def grids(tier, small=False):
    if tier == 'quick':
        g = [(2, 2), (3, 5), (5, 3), (8, 4), (4, 7)]
    else:
        g = [(a, b) for a in (2, 3, 4, 5, 7, 8) for b in (2, 3, 4, 5, 7, 8)]
    return g


CUTS = [(2.5, 50.0), (6.5, 100.0), (1.0, 1.0), (0.2, 0.9), (7.2, 3.6)]


def big_models(fs, tier):
    """structured 5- and 6-element models (beyond the exhaustively enumerated sizes): three element orders x pair-subset patterns
    {all, none, every other, upper triangle reversed} [x density patterns for Finnis-Sinclair]"""
    out = []
    for n in (5, 6):
        base = BIG[:n]
        for oi, els in enumerate((base, base[::-1], base[2:] + base[:2])):
            up = unordered_pairs(els)
            for pi, pairs in enumerate((up, [], up[::2], orient(up[1::2], 1))):
                if fs:
                    allp = ['%s->%s' % (a, b) for a in els for b in els]
                    dens = [allp, allp[::3], [p for p in allp if p.split('->')[0] != p.split('->')[1]]][(oi + pi) % 3]
                else:
                    dens = list(els) if (oi + pi) % 2 else list(reversed(els))
                out.append(dict(fs=fs, embed=list(els), dens=dens, pairs=[list(p) for p in orient(pairs, pi % 3)], species='builtin',
                                nr=3 + (oi + pi) % 3, cutoff=2.5, nrho=2 + (oi + pi) % 4, cutoff_rho=50.0))
    return out


# -------------------------------------------------------------------------------------- the grid itself (procedural writers, step handed over)
GRID_EXACT = [(0.1, 12), (0.01, 60), (0.3, 9), (0.7, 8), (0.05, 41), (0.001, 120), (1.0 / 3.0, 10), (0.025, 50)]


def stair(step, n):
    """a right-continuous staircase with one unit step AT every grid point float(i)*step: its value at the i-th grid point is i + 1, and
    i (or i + 2) at any other float next to it - the row values spell out the separations the writer really used"""
    import bisect
    knots = [float(j) * step for j in range(n)]
    return lambda x: float(bisect.bisect_right(knots, float(x)))


def grid_exact_objects(nrho, drho, nr, dr, fs):
    import atsim.potentials as ap
    dens = stair(dr, nr)
    eam = ap.EAMPotential('Cu', 29, 63.546, stair(drho, nrho), {'Cu': dens} if fs else dens, latticeConstant=3.61, latticeType='fcc')
    return [ap.Potential('Cu', 'Cu', stair(dr, nr))], [eam]
