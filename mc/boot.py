"""Bind the `atsim` package to the working tree under test (VERIF_REPO, default /repo).

/venv carries an editable install whose *-nspkg.pth pre-creates sys.modules['atsim'] with
__path__ = ['/repo/atsim']; sys.path manipulation alone therefore does not redirect imports.
This module rewrites that __path__, removes the editable finder and asserts the binding.
Library import failure => SystemExit(2) with a BROKEN: line (never a VIOLATION).
"""
import os, sys, subprocess, hashlib, warnings

REPO = os.path.abspath(os.environ.get('VERIF_REPO', '/repo'))
VERIF = os.path.dirname(os.path.dirname(os.path.abspath(__file__)))
_bound = False


def bind():
    global _bound
    if _bound:
        return
    warnings.filterwarnings('ignore', category=SyntaxWarning)
    warnings.filterwarnings('ignore', category=DeprecationWarning)
    sys.dont_write_bytecode = True
    m = sys.modules.get('atsim')
    if m is not None and hasattr(m, '__path__'):
        try:
            m.__path__[:] = [os.path.join(REPO, 'atsim')]
        except TypeError:
            m.__path__ = [os.path.join(REPO, 'atsim')]
    sys.meta_path[:] = [f for f in sys.meta_path
                        if not str(getattr(f, '__module__', '')).startswith('__editable__')]
    if REPO != '/repo':
        sys.path[:] = [p for p in sys.path if os.path.abspath(p or '.') != '/repo']
    if REPO not in sys.path:
        sys.path.insert(0, REPO)
    for k in [k for k in sys.modules if k == 'atsim.potentials' or k.startswith('atsim.potentials.')]:
        del sys.modules[k]
    try:
        import atsim.potentials  # noqa
        import atsim.potentials.config  # noqa
        import atsim.potentials.tools.potable  # noqa
    except BaseException as e:  # library does not import: the check is not meaningful
        print('BROKEN: cannot import atsim.potentials from %s: %s: %s' % (REPO, type(e).__name__, e))
        raise SystemExit(2)
    f = os.path.abspath(atsim.potentials.__file__)
    if not f.startswith(REPO + os.sep):
        print('BROKEN: atsim.potentials bound to %s, expected under %s' % (f, REPO))
        raise SystemExit(2)
    import logging
    if not os.environ.get('VERIF_LOGGING'):      # (set by seams.fresh_process: an embedding application that configured logging itself)
        logging.disable(logging.CRITICAL)
    assert os.linesep == '\n'
    _bound = True


def tree_id():
    """(HEAD, sha1 of `git diff`) of the tree under test, for the evidence file."""
    def run(*a):
        try:
            return subprocess.run(['git', '-C', REPO] + list(a), capture_output=True, timeout=30).stdout
        except Exception:
            return b''
    head = run('rev-parse', 'HEAD').decode().strip()
    diff = run('diff', 'HEAD')
    return head, hashlib.sha1(diff).hexdigest()[:12] if diff else 'clean'
