"""Harness self-test: jets against finite differences, readers against hand-written files."""
import math
from .refmodel.jets import Jet, jexp, jlog, jsqrt
from .refmodel import forms as F
from .readers import pair as RP


def main():
    # jets: compare with central differences of the value for every reference form
    h = 1e-5
    params = dict(bornmayer=(850.0, 0.35), buck=(1000.0, 0.3, 32.0), constant=(2.0,), coul=(2.4, -1.2), exponential=(3.0, -2.5),
                  exp_spline=(0.1, -0.2, 0.05, 0.01, -0.002, 0.0001, 0.3), hbnd=(120.0, 35.0), lj=(0.2, 2.5), morse=(1.8, 2.0, 0.6),
                  polynomial=(1.0, -2.0, 0.5, 0.1), sqrt=(2.5,), tang_toennies=(41.96, 2.523, 1.461, 14.11, 183.6), zbl=(14, 8), zero=())
    for name, p in params.items():
        f = F.FORMS[name]
        for r in (1.1, 2.3, 4.0):
            j = f(Jet.var(r), *p)
            d1 = (f(Jet.var(r + h), *p).v - f(Jet.var(r - h), *p).v) / (2 * h)
            d2 = (f(Jet.var(r + h), *p).d1 - f(Jet.var(r - h), *p).d1) / (2 * h)
            assert abs(j.d1 - d1) <= 1e-6 * (1 + abs(d1)), (name, r, j.d1, d1)
            assert abs(j.d2 - d2) <= 1e-6 * (1 + abs(d2)), (name, r, j.d2, d2)
    x = Jet.var(1.7)
    assert abs((x ** 3).d2 - 6 * 1.7) < 1e-12 and abs(jlog(jexp(x)).d1 - 1) < 1e-12 and abs(jsqrt(x * x).d1 - 1) < 1e-12
    assert abs((Jet(-2.0, 0.5, 0.1) ** Jet(2.0)).v - 4.0) < 1e-15
    # readers
    t = 'A-B\nN 2 R 0.50000000 1.00000000\n\n1 0.50000000 1.00000000 -2.00000000\n2 1.00000000 0.50000000 -1.00000000\n'
    b = RP.read_lammps_table(t)
    assert len(b) == 1 and b[0]['N'] == 2 and b[0]['rows'][1][1] == 1.0
    try:
        RP.read_lammps_table(t + '3 1.50000000 0.1 0.1\n')
        raise AssertionError('extra row not rejected')
    except RP.FormatError:
        pass
    assert RP.ulp_of(' 1.2345670e-03') == 1e-10 and RP.ulp_of('0.50000000') == 1e-8
    # engine: a worker that dies once (transient) costs nothing but a retry; a case that always kills its worker is reported, the rest is executed
    import os
    from . import engine
    from .checks import _poolprobe
    for f in os.listdir(_poolprobe.FLAGDIR):
        if f.startswith('verif-poolprobe-'):
            os.remove(os.path.join(_poolprobe.FLAGDIR, f))
    _m, cases, results, _s = engine.explore('mc.checks._poolprobe', 'quick', 0)
    assert all(r is not None for r in results) and [r['index'] for r in results if r.get('outcome') == 'worker-died'] == [301], 'pool recovery'
    for f in os.listdir(_poolprobe.FLAGDIR):
        if f.startswith('verif-poolprobe-'):
            os.remove(os.path.join(_poolprobe.FLAGDIR, f))
    print('selftest ok')
