"""Potential-definition AST shared by generators, the reference evaluator and the renderers.

JSON-able representation (so that a case descriptor *is* the model):

  defn  := {"ranges": [[marker, start, item], ...]}      marker in (None, ">", ">="); the first range may
                                                          be unmarked (marker None) which the manual defines as ">0"
  item  := {"form": "buck", "params": [...]}             built-in form  `as.buck p1 p2 p3`
         | {"mod": "sum"|"product"|"pow", "args": [defn, ...]}
         | {"mod": "trans", "args": [defn], "x": X}      trans(defn, as.constant X)  == defn(r + X)
         | {"mod": "spline", "start": item, "detach": [marker, r], "kind": "exp_spline"|"buck4_spline",
            "rmin": r|None, "attach": [marker, r], "end": item, "first": [marker, r]|None}
         | {"custom": "name", "params": [...]}           [Potential-Form] name(r, a, b, ...) instance
         | {"table": "name"}                             [Table-Form:name] instance
         | {"form": "buck4", "params": [A, rho, C, rd, rm, ra]}

This module is the *reference semantics* (documented behaviour); it never imports atsim.
"""
import math
from .jets import Jet
from . import forms as F


# ---------------------------------------------------------------------------------- numbers -> text
def num(x):
    if isinstance(x, bool):
        raise TypeError
    if isinstance(x, int):
        return str(x)
    s = repr(float(x))
    if 'e' in s or 'E' in s or 'inf' in s or 'nan' in s:
        s = '%.17f' % x
        s = s.rstrip('0')
        if s.endswith('.'):
            s += '0'
        if float(s) != float(x):
            s = repr(float(x))         # very small / very large magnitudes: exponent notation is the only exact spelling
    return s


# ---------------------------------------------------------------------------------- shorthand builders
def form(name, *params):
    return {"form": name, "params": list(params)}


def D(*ranges):
    """D(item) -> single unmarked range;  D((">", 1.0, item), ...)"""
    out = []
    for rg in ranges:
        if isinstance(rg, dict):
            out.append([None, None, rg])
        else:
            out.append([rg[0], rg[1], rg[2]])
    return {"ranges": out}


def mod(name, *args, **kw):
    d = {"mod": name, "args": [a if 'ranges' in a else D(a) for a in args]}
    d.update(kw)
    return d


# ---------------------------------------------------------------------------------- rendering (potable text)
def render_item(it):
    if 'form' in it:
        ps = ' '.join(num(p) for p in it['params'])
        return ('as.%s %s' % (it['form'], ps)).strip()
    if 'custom' in it:
        ps = ' '.join(num(p) for p in it['params'])
        return ('%s %s' % (it['custom'], ps)).strip()
    if 'table' in it:
        return it['table']
    m = it['mod']
    if m == 'trans':
        return 'trans(%s, as.constant %s)' % (render_defn(it['args'][0]), num(it['x']))
    if m == 'spline':
        parts = []
        if it.get('first'):
            parts.append('%s%s' % (it['first'][0], num(it['first'][1])))
        parts.append(render_item(it['start']))
        parts.append('%s%s' % (it['detach'][0], num(it['detach'][1])))
        parts.append(it['kind'] + ('' if it.get('rmin') is None else ' ' + num(it['rmin'])))
        parts.append('%s%s' % (it['attach'][0], num(it['attach'][1])))
        parts.append(render_item(it['end']))
        return 'spline(%s)' % ' '.join(parts)
    return '%s(%s)' % (m, ', '.join(render_defn(a) for a in it['args']))


def render_defn(d):
    parts = []
    for marker, start, it in d['ranges']:
        if marker is not None:
            parts.append('%s%s' % (marker, num(start)))
        parts.append(render_item(it))
    return ' '.join(parts)


# ---------------------------------------------------------------------------------- reference evaluation
class Env(object):
    """definitions of custom forms (python callables over Jets) and table forms (scipy interpolants)"""

    def __init__(self, custom=None, tables=None):
        self.custom = custom or {}
        self.tables = tables or {}


def select_range(ranges, r):
    """documented multi-range rule: candidates contain r; greatest start wins; at r == s an inclusive
    range wins over an exclusive one sharing its start (the exclusive one does not contain r)."""
    best = None
    for marker, start, it in ranges:
        if marker is None:
            marker, start = '>', 0.0
        inside = (r > start) or (marker == '>=' and r == start)
        if not inside:
            continue
        if best is None or start > best[1] or (start == best[1] and marker == '>' and best[0] == '>='):
            # for r strictly above a shared start the repo's own test pins the '>' range
            best = (marker, start, it)
    return best


def ev_defn(d, r, env=None):
    """value/deriv/deriv2 (a Jet) of definition d at separation r (float)"""
    sel = select_range(d['ranges'], r)
    if sel is None:
        return Jet(0.0)
    return ev_item(sel[2], r, env)


def ev_item(it, r, env=None):
    if 'form' in it:
        name = it['form']
        if name == 'buck4':
            return ev_buck4(it['params'], r)
        return F.FORMS[name](Jet.var(r), *it['params'])
    if 'custom' in it:
        return env.custom[it['custom']](Jet.var(r), *it['params'])
    if 'table' in it:
        return env.tables[it['table']](r)
    if 'py' in it:
        return env.custom[it['py']](Jet.var(r))
    m = it['mod']
    if m == 'sum':
        out = Jet(0.0)
        for a in it['args']:
            out = out + ev_defn(a, r, env)
        return out
    if m == 'product':
        out = Jet(1.0)
        for a in it['args']:
            out = out * ev_defn(a, r, env)
        return out
    if m == 'pow':
        # more than two arguments: "raises each potential-form to the power of the next", i.e. a left fold ((a**b)**c)**d - the reading
        # the repository's own (sympy) test pins for three arguments and the one `reduce` in the anchored mechanism gives
        out = ev_defn(it['args'][0], r, env)
        for b in it['args'][1:]:
            out = out ** ev_defn(b, r, env)
        return out
    if m == 'trans':
        return ev_defn(it['args'][0], r + it['x'], env)
    if m == 'spline':
        return ev_spline(it, r, env)
    raise ValueError(m)


# ---------------------------------------------------------------------------------- reference splines
def _solve(A, b):
    import numpy as np
    return [float(x) for x in np.linalg.solve(np.array(A, dtype=float), np.array(b, dtype=float))]


def exp_spline_coeffs(sx, s, ex, e, C=None):
    """B0..B5, C of exp(sum B_i r^i) + C matching value, slope and curvature of jets s at sx and e at ex.
    C: the documented upward shift -- 0 when both end values are positive, else -(1 - min(values))."""
    if C is None:
        C = 0.0
        if s.v <= 0.0 or e.v <= 0.0:
            C = -(1.0 - min(s.v, e.v))
    rows, rhs = [], []
    for x, j in ((sx, s), (ex, e)):
        y = j.v - C
        rows.append([x ** k for k in range(6)])
        rhs.append(math.log(y))
    for x, j in ((sx, s), (ex, e)):
        y = j.v - C
        rows.append([k * x ** (k - 1) if k >= 1 else 0.0 for k in range(6)])
        rhs.append(j.d1 / y)
    for x, j in ((sx, s), (ex, e)):
        y = j.v - C
        rows.append([k * (k - 1) * x ** (k - 2) if k >= 2 else 0.0 for k in range(6)])
        rhs.append(j.d2 / y - (j.d1 / y) ** 2)
    return _solve(rows, rhs) + [C]


def buck4_coeffs(rd, s, rm, ra, e):
    """a0..a5 (5th order on [rd, rm)) and b0..b3 (3rd order on [rm, ra)); C2 at rd, rm, ra; zero slope at rm"""
    def p(x, n, k=0):
        out = []
        for i in range(n):
            c = 1.0
            for q in range(k):
                c *= (i - q)
            out.append(c * x ** (i - k) if i - k >= 0 else 0.0)
        return out
    Z4, Z6 = [0.0] * 4, [0.0] * 6
    neg = lambda v: [-t for t in v]  # noqa
    rows = [p(rd, 6) + Z4, p(rd, 6, 1) + Z4, p(rd, 6, 2) + Z4,
            p(rm, 6, 1) + Z4,
            p(rm, 6) + neg(p(rm, 4)), p(rm, 6, 1) + neg(p(rm, 4, 1)), p(rm, 6, 2) + neg(p(rm, 4, 2)),
            Z6 + p(ra, 4), Z6 + p(ra, 4, 1), Z6 + p(ra, 4, 2)]
    rhs = [s.v, s.d1, s.d2, 0.0, 0.0, 0.0, 0.0, e.v, e.d1, e.d2]
    c = _solve(rows, rhs)
    return c[:6], c[6:]


def ev_spline(it, r, env=None):
    rd, ra = it['detach'][1], it['attach'][1]
    if r <= rd:
        if it.get('first'):
            mk, st = it['first']
        else:
            mk, st = '>', 0.0
        if not (r > st or (mk == '>=' and r == st)):
            return Jet(0.0)
        return ev_item(it['start'], r, env)
    if r >= ra:
        return ev_item(it['end'], r, env)
    s = ev_item(it['start'], rd, env)
    e = ev_item(it['end'], ra, env)
    if it['kind'] == 'exp_spline':
        c = exp_spline_coeffs(rd, s, ra, e)
        return F.exp_spline(Jet.var(r), *c)
    a, b = buck4_coeffs(rd, s, it['rmin'], ra, e)
    return F.polynomial(Jet.var(r), *(a if r < it['rmin'] else b))


def ev_buck4(params, r):
    A, rho, C, rd, rm, ra = params
    it = {"mod": "spline", "start": form('bornmayer', A, rho), "detach": ['>', rd], "kind": "buck4_spline",
          "rmin": rm, "attach": ['>', ra], "end": form('buck', 0.0, 1.0, C), "first": ['>', float('-inf')]}
    return ev_spline(it, r)


# ---------------------------------------------------------------------------------- table forms (scipy is the documented behaviour)
class RefTable(object):
    def __init__(self, x, y):
        from scipy.interpolate import InterpolatedUnivariateSpline
        self.x, self.y = list(x), list(y)
        self.s = InterpolatedUnivariateSpline(self.x, self.y, k=3, ext=1)
        self.d1 = self.s.derivative(1)
        self.d2 = self.s.derivative(2)

    def __call__(self, r):
        return Jet(float(self.s(r)), float(self.d1(r)), float(self.d2(r)))


# ---------------------------------------------------------------------------------- helpers for generators
def uses(d, pred):
    """True if any item in definition d satisfies pred"""
    for _m, _s, it in d['ranges']:
        if pred(it):
            return True
        for a in it.get('args', []):
            if uses(a, pred):
                return True
        for k in ('start', 'end'):
            if k in it and pred(it[k]):
                return True
    return False


def breakpoints(d):
    """separations at which the selected range of definition d (or of a nested definition) changes: the
    function may be discontinuous there, so a grid point within rounding distance of one is ill-conditioned"""
    out = set()
    for marker, start, it in d['ranges']:
        s = 0.0 if marker is None else start
        if s != float('-inf'):
            out.add(s)
        out |= _bp_item(it)
    return out


def _bp_item(it):
    out = set()
    if 'mod' in it:
        if it['mod'] == 'trans':
            out |= set(b - it['x'] for b in breakpoints(it['args'][0]))
        elif it['mod'] == 'spline':
            if it.get('first') and it['first'][1] != float('-inf'):
                out.add(it['first'][1])
            elif not it.get('first'):
                out.add(0.0)
        else:
            for a in it['args']:
                out |= breakpoints(a)
    return out


def near_breakpoint(bps, r, tol=1e-6):
    for b in bps:
        if abs(r - b) <= tol:
            return True
    return False
