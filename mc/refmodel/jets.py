"""Second-order forward-mode automatic differentiation ("jets"): (value, d/dr, d2/dr2).

Independent of atsim: used to obtain exact first and second derivatives of every reference
function and of every composition of them.
"""
import math


class Jet(object):
    __slots__ = ('v', 'd1', 'd2')

    def __init__(self, v, d1=0.0, d2=0.0):
        self.v = float(v)
        self.d1 = float(d1)
        self.d2 = float(d2)

    @staticmethod
    def var(r):
        return Jet(r, 1.0, 0.0)

    @staticmethod
    def lift(x):
        return x if isinstance(x, Jet) else Jet(x)

    def __repr__(self):
        return 'Jet(%r, %r, %r)' % (self.v, self.d1, self.d2)

    def is_const(self):
        return self.d1 == 0.0 and self.d2 == 0.0

    def __neg__(self):
        return Jet(-self.v, -self.d1, -self.d2)

    def __add__(self, o):
        o = Jet.lift(o)
        return Jet(self.v + o.v, self.d1 + o.d1, self.d2 + o.d2)
    __radd__ = __add__

    def __sub__(self, o):
        o = Jet.lift(o)
        return Jet(self.v - o.v, self.d1 - o.d1, self.d2 - o.d2)

    def __rsub__(self, o):
        return Jet.lift(o) - self

    def __mul__(self, o):
        o = Jet.lift(o)
        return Jet(self.v * o.v,
                   self.d1 * o.v + self.v * o.d1,
                   self.d2 * o.v + 2.0 * self.d1 * o.d1 + self.v * o.d2)
    __rmul__ = __mul__

    def recip(self):
        b = self.v
        return Jet(1.0 / b, -self.d1 / (b * b), 2.0 * self.d1 * self.d1 / (b * b * b) - self.d2 / (b * b))

    def __truediv__(self, o):
        return self * Jet.lift(o).recip()

    def __rtruediv__(self, o):
        return Jet.lift(o) * self.recip()

    def ipow(self, n):
        """integer power by repeated multiplication (regular at 0 for n >= 0)"""
        n = int(n)
        if n < 0:
            return self.ipow(-n).recip()
        out = Jet(1.0)
        base = self
        while n:
            if n & 1:
                out = out * base
            base = base * base
            n >>= 1
        return out

    def cpow(self, c):
        """power with a constant exponent"""
        c = float(c)
        if c == int(c) and abs(c) <= 64:
            return self.ipow(int(c))
        a = self.v
        return Jet(a ** c,
                   c * a ** (c - 1.0) * self.d1,
                   c * (c - 1.0) * a ** (c - 2.0) * self.d1 * self.d1 + c * a ** (c - 1.0) * self.d2)

    def __pow__(self, o):
        o = Jet.lift(o)
        if o.is_const():
            return self.cpow(o.v)
        return jexp(o * jlog(self))

    def __rpow__(self, o):
        return Jet.lift(o) ** self


def jexp(a):
    a = Jet.lift(a)
    e = math.exp(a.v)
    return Jet(e, e * a.d1, e * (a.d1 * a.d1 + a.d2))


def jlog(a):
    a = Jet.lift(a)
    return Jet(math.log(a.v), a.d1 / a.v, a.d2 / a.v - a.d1 * a.d1 / (a.v * a.v))


def jsqrt(a):
    a = Jet.lift(a)
    s = math.sqrt(a.v)
    return Jet(s, 0.5 * a.d1 / s, 0.5 * a.d2 / s - 0.25 * a.d1 * a.d1 / (s * a.v))


def jsin(a):
    a = Jet.lift(a)
    s, c = math.sin(a.v), math.cos(a.v)
    return Jet(s, c * a.d1, c * a.d2 - s * a.d1 * a.d1)


def jcos(a):
    a = Jet.lift(a)
    s, c = math.sin(a.v), math.cos(a.v)
    return Jet(c, -s * a.d1, -s * a.d2 - c * a.d1 * a.d1)


def jtanh(a):
    a = Jet.lift(a)
    t = math.tanh(a.v)
    g = 1.0 - t * t
    return Jet(t, g * a.d1, g * a.d2 - 2.0 * t * g * a.d1 * a.d1)


ZERO = Jet(0.0)
