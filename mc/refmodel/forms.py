"""Reference closed forms of the built-in potential forms, written from the package documentation
(docs/reference/potential_forms.rst), parameters in documented signature order.

Every function takes r (float or Jet) followed by the parameters and returns a Jet, so
value, first and second derivative all come from the same independent expression.
This module never imports atsim.
"""
import math
from .jets import Jet, jexp, jsqrt

COUL_K = 1.0 / (4.0 * math.pi * 0.0055264)  # eV.Angstrom, epsilon_0 = 0.0055264 e^2/(eV.A)


def _r(r):
    return r if isinstance(r, Jet) else Jet.var(r)


def bornmayer(r, A, rho):
    r = _r(r)
    return A * jexp(-r / rho)


def buck(r, A, rho, C):
    r = _r(r)
    return A * jexp(-r / rho) - C / r.ipow(6)


def constant(r, C):
    return Jet(C)


def coul(r, qi, qj):
    r = _r(r)
    return (qi * qj * COUL_K) / r


def exponential(r, A, n):
    r = _r(r)
    return A * r.cpow(n)


def exp_spline(r, B0, B1, B2, B3, B4, B5, C):
    r = _r(r)
    p = B0 + r * (B1 + r * (B2 + r * (B3 + r * (B4 + r * B5))))
    return jexp(p) + C


def hbnd(r, A, B):
    r = _r(r)
    return A / r.ipow(12) - B / r.ipow(10)


def lj(r, epsilon, sigma):
    r = _r(r)
    sr6 = (Jet(sigma) / r).ipow(6)
    return 4.0 * epsilon * (sr6 * sr6 - sr6)


def morse(r, gamma, r_star, D):
    r = _r(r)
    return D * (jexp(-2.0 * gamma * (r - r_star)) - 2.0 * jexp(-gamma * (r - r_star)))


def polynomial(r, *coefs):
    r = _r(r)
    out = Jet(0.0)
    for c in reversed(coefs):
        out = out * r + c
    return out


def sqrt(r, G):
    r = _r(r)
    return G * jsqrt(r)


def tang_toennies(r, A, b, C6, C8, C10):
    """defining sum: V = A exp(-bR) - sum_{n=3..5} f_2n(bR) C_2n / R^2n, R in bohr (r/0.5292), energy x 27.211 eV"""
    r = _r(r)
    R = r / 0.5292
    x = b * R
    ex = jexp(-x)
    out = A * jexp(-b * R)
    for n, C in ((3, C6), (4, C8), (5, C10)):
        s = Jet(0.0)
        term = Jet(1.0)
        for k in range(2 * n + 1):
            if k > 0:
                term = term * x / float(k)
            s = s + term
        f = 1.0 - ex * s
        out = out - f * C / R.ipow(2 * n)
    return out * 27.211


ZBL_C = (0.1818, 0.5099, 0.2802, 0.02817)
ZBL_B = (3.2, 0.9423, 0.4029, 0.2016)


def zbl(r, z1, z2):
    r = _r(r)
    a = (0.8854 * 0.529) / (float(z1) ** 0.23 + float(z2) ** 0.23)
    phi = Jet(0.0)
    for c, b in zip(ZBL_C, ZBL_B):
        phi = phi + c * jexp(-b * r / a)
    return 14.39942 * (z1 * z2) / r * phi


def zero(r):
    return Jet(0.0)


FORMS = dict(bornmayer=bornmayer, buck=buck, constant=constant, coul=coul, exponential=exponential,
             exp_spline=exp_spline, hbnd=hbnd, lj=lj, morse=morse, polynomial=polynomial, sqrt=sqrt,
             tang_toennies=tang_toennies, zbl=zbl, zero=zero)

ARITY = dict(bornmayer=2, buck=3, constant=1, coul=2, exponential=2, exp_spline=7, hbnd=2, lj=2, morse=3,
             polynomial=None, sqrt=1, tang_toennies=5, zbl=2, zero=0)
