"""Owned nondeterminism: set iteration order (PermSet), the wall clock (frozen_clock), hash seeds (fresh processes).

All seams are harness-side patches applied after binding the package to the tree under test; nothing is compiled into /repo.
"""
import contextlib, itertools, os, sys, json, subprocess, time as _time

from . import boot

# ----------------------------------------------------------------------------------------- set iteration order
PERM = [0]      # index of the permutation applied to every PermSet iteration


class PermSet(set):
    """a set whose iteration order is chosen by the harness: the PERM[0]-th permutation (mod n!) of the sorted elements.
    Results of the set operators keep the type, so the order stays controlled through `a ^ b`, `a - b`, `a | b`, `a & b`."""

    def __iter__(self):
        els = sorted(set.__iter__(self), key=repr)
        n = len(els)
        if n <= 1:
            return iter(els)
        k = PERM[0]
        # k-th permutation in lexicographic order (factorial number system), k taken modulo n!
        fact = 1
        for i in range(2, n + 1):
            fact *= i
        k %= fact
        out = []
        pool = list(els)
        for i in range(n, 0, -1):
            fact //= i
            out.append(pool.pop(k // fact))
            k %= fact
        return iter(out)

    def _wrap(self, r):
        return PermSet(r) if isinstance(r, set) and not isinstance(r, PermSet) else r

    def __xor__(self, o):
        return PermSet(set.__xor__(self, o))

    def __sub__(self, o):
        return PermSet(set.__sub__(self, o))

    def __or__(self, o):
        return PermSet(set.__or__(self, o))

    def __and__(self, o):
        return PermSet(set.__and__(self, o))

    __rxor__, __ror__, __rand__ = __xor__, __or__, __and__

    def copy(self):
        return PermSet(self)


SEAM_MODULES = ['atsim.potentials.config._eam_potential_builder', 'atsim.potentials._dlpoly_writeTABEAM',
                'atsim.potentials.config._config_parser', 'atsim.potentials.config._tabulation_factories']


@contextlib.contextmanager
def set_order(k):
    """inside the context every `set(...)` built by the seam modules iterates in the k-th permutation"""
    import importlib
    patched = []
    unavailable = []
    for name in SEAM_MODULES:
        try:
            m = importlib.import_module(name)
            had = 'set' in m.__dict__
            old = m.__dict__.get('set')
            m.__dict__['set'] = PermSet
            patched.append((m, had, old))
        except Exception:  # noqa
            unavailable.append(name)
    old_k = PERM[0]
    PERM[0] = k
    try:
        yield unavailable
    finally:
        PERM[0] = old_k
        for m, had, old in patched:
            if had:
                m.__dict__['set'] = old
            else:
                del m.__dict__['set']


# ----------------------------------------------------------------------------------------- the clock
class _FakeDatetimeModule(object):
    """stands in for the `datetime` module inside openpyxl's writer: now()/utcnow() return the virtual instant"""

    def __init__(self, real, instant):
        self._real = real
        self.timezone = real.timezone
        self.timedelta = real.timedelta
        self.date = real.date
        self.time = real.time
        inst = instant

        class _DT(real.datetime):
            @classmethod
            def now(cls, tz=None):
                return real.datetime.fromtimestamp(inst, tz)

            @classmethod
            def utcnow(cls):
                return real.datetime.utcfromtimestamp(inst)
        self.datetime = _DT

    def __getattr__(self, k):
        return getattr(self._real, k)


@contextlib.contextmanager
def frozen_clock(instant=1700000000.0):
    """time.time/localtime/gmtime and datetime.now as seen by openpyxl and zipfile return a fixed virtual instant"""
    import datetime as real_dt
    import importlib
    real_time, real_local, real_gm = _time.time, _time.localtime, _time.gmtime
    _time.time = lambda: instant
    _time.localtime = lambda secs=None: real_gm(instant if secs is None else secs)
    _time.gmtime = lambda secs=None: real_gm(instant if secs is None else secs)
    import zipfile
    real_from_file = zipfile.ZipInfo.__dict__['from_file']

    def from_file(cls, filename, arcname=None, **kw):
        zi = real_from_file.__func__(cls, filename, arcname, **kw)
        zi.date_time = tuple(real_gm(instant)[:6])     # file modification times are part of the clock the harness owns
        return zi
    zipfile.ZipInfo.from_file = classmethod(from_file)
    patched = []
    for name in ('openpyxl.packaging.core', 'openpyxl.writer.excel', 'openpyxl.workbook.workbook', 'openpyxl.packaging.workbook'):
        try:
            m = importlib.import_module(name)
            if 'datetime' in m.__dict__ and not isinstance(m.__dict__['datetime'], _FakeDatetimeModule):
                patched.append((m, m.__dict__['datetime']))
                m.__dict__['datetime'] = _FakeDatetimeModule(real_dt, instant)
        except Exception:  # noqa
            pass
    try:
        yield
    finally:
        _time.time, _time.localtime, _time.gmtime = real_time, real_local, real_gm
        zipfile.ZipInfo.from_file = real_from_file
        for m, old in patched:
            m.__dict__['datetime'] = old


# ----------------------------------------------------------------------------------------- fresh processes / hash seeds
def fresh_process(script_args, hashseed, timeout=300, stdin=None):
    """run `python tools/treepy.py REPO <script> args` in a fresh interpreter with the given PYTHONHASHSEED; returns stdout bytes"""
    env = dict(os.environ, PYTHONHASHSEED=str(hashseed), PYTHONDONTWRITEBYTECODE='1', PYTHONWARNINGS='ignore',
               VERIF_REPO=boot.REPO, OMP_NUM_THREADS='1', OPENBLAS_NUM_THREADS='1')
    p = subprocess.run([sys.executable, '-W', 'ignore', os.path.join(boot.VERIF, 'tools', 'treepy.py'), boot.REPO] + list(script_args),
                       capture_output=True, timeout=timeout, env=env, input=stdin)
    return p.returncode, p.stdout, p.stderr
