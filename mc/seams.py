"""Owned nondeterminism: set iteration order (PermSet), the wall clock (frozen_clock), hash seeds (fresh processes).

All seams are harness-side patches applied after binding the package to the tree under test; nothing is compiled into /repo.
"""
import contextlib, itertools, os, sys, json, subprocess, time as _time

from . import boot

# ----------------------------------------------------------------------------------------- set iteration order
PERM = [0]      # index of the permutation applied to every PermSet iteration


class PermSet(set):
    """a set whose iteration order is chosen by the harness: the PERM[0]-th permutation (mod n!) of the sorted elements.
    Results of the set operators keep the type, so the order stays controlled through `a ^ b`, `a - b`, `a | b`, `a & b`."""

    def __iter__(self):
        els = sorted(set.__iter__(self), key=repr)
        n = len(els)
        if n <= 1:
            return iter(els)
        k = PERM[0]
        # k-th permutation in lexicographic order (factorial number system), k taken modulo n!
        fact = 1
        for i in range(2, n + 1):
            fact *= i
        k %= fact
        out = []
        pool = list(els)
        for i in range(n, 0, -1):
            fact //= i
            out.append(pool.pop(k // fact))
            k %= fact
        return iter(out)

    def _wrap(self, r):
        return PermSet(r) if isinstance(r, set) and not isinstance(r, PermSet) else r

    def __xor__(self, o):
        return PermSet(set.__xor__(self, o))

    def __sub__(self, o):
        return PermSet(set.__sub__(self, o))

    def __or__(self, o):
        return PermSet(set.__or__(self, o))

    def __and__(self, o):
        return PermSet(set.__and__(self, o))

    __rxor__, __ror__, __rand__ = __xor__, __or__, __and__

    def copy(self):
        return PermSet(self)


SEAM_MODULES = ['atsim.potentials.config._eam_potential_builder', 'atsim.potentials._dlpoly_writeTABEAM',
                'atsim.potentials.config._config_parser', 'atsim.potentials.config._tabulation_factories']


@contextlib.contextmanager
def set_order(k):
    """inside the context every `set(...)` built by the seam modules iterates in the k-th permutation"""
    import importlib
    patched = []
    unavailable = []
    for name in SEAM_MODULES:
        try:
            m = importlib.import_module(name)
            had = 'set' in m.__dict__
            old = m.__dict__.get('set')
            m.__dict__['set'] = PermSet
            patched.append((m, had, old))
        except Exception:  # noqa
            unavailable.append(name)
    old_k = PERM[0]
    PERM[0] = k
    try:
        yield unavailable
    finally:
        PERM[0] = old_k
        for m, had, old in patched:
            if had:
                m.__dict__['set'] = old
            else:
                del m.__dict__['set']


# ----------------------------------------------------------------------------------------- the clock
class _FakeDatetimeModule(object):
    """stands in for the `datetime` module inside openpyxl's writer: now()/utcnow() return the virtual instant"""

    def __init__(self, real, instant):
        self._real = real
        self.timezone = real.timezone
        self.timedelta = real.timedelta
        self.date = real.date
        self.time = real.time
        inst = instant

        class _DT(real.datetime):
            @classmethod
            def now(cls, tz=None):
                return real.datetime.fromtimestamp(inst, tz)

            @classmethod
            def utcnow(cls):
                return real.datetime.utcfromtimestamp(inst)
        self.datetime = _DT

    def __getattr__(self, k):
        return getattr(self._real, k)


@contextlib.contextmanager
def frozen_clock(instant=1700000000.0):
    """time.time/localtime/gmtime and datetime.now as seen by openpyxl and zipfile return a fixed virtual instant"""
    import datetime as real_dt
    import importlib
    real_time, real_local, real_gm = _time.time, _time.localtime, _time.gmtime
    _time.time = lambda: instant
    _time.localtime = lambda secs=None: real_gm(instant if secs is None else secs)
    _time.gmtime = lambda secs=None: real_gm(instant if secs is None else secs)
    import zipfile
    real_from_file = zipfile.ZipInfo.__dict__['from_file']

    def from_file(cls, filename, arcname=None, **kw):
        zi = real_from_file.__func__(cls, filename, arcname, **kw)
        zi.date_time = tuple(real_gm(instant)[:6])     # file modification times are part of the clock the harness owns
        return zi
    zipfile.ZipInfo.from_file = classmethod(from_file)
    patched = []
    for name in ('openpyxl.packaging.core', 'openpyxl.writer.excel', 'openpyxl.workbook.workbook', 'openpyxl.packaging.workbook'):
        try:
            m = importlib.import_module(name)
            if 'datetime' in m.__dict__ and not isinstance(m.__dict__['datetime'], _FakeDatetimeModule):
                patched.append((m, m.__dict__['datetime']))
                m.__dict__['datetime'] = _FakeDatetimeModule(real_dt, instant)
        except Exception:  # noqa
            pass
    try:
        yield
    finally:
        _time.time, _time.localtime, _time.gmtime = real_time, real_local, real_gm
        zipfile.ZipInfo.from_file = real_from_file
        for m, old in patched:
            m.__dict__['datetime'] = old


# ----------------------------------------------------------------------------------------- fresh processes / hash seeds
def fresh_process(script_args, hashseed, timeout=300, stdin=None, optimize=0, logging_level=None):
    """run `python tools/treepy.py REPO <script> args` in a fresh interpreter with the given PYTHONHASHSEED; returns stdout bytes.
    optimize: interpreter optimisation level (python -O / -OO, through PYTHONOPTIMIZE); logging_level: the embedding application has
    configured the root logger at that level before the library is imported (scripts honour VERIF_LOGGING, see process_environment())"""
    env = dict(os.environ, PYTHONHASHSEED=str(hashseed), PYTHONDONTWRITEBYTECODE='1', PYTHONWARNINGS='ignore',
               VERIF_REPO=boot.REPO, OMP_NUM_THREADS='1', OPENBLAS_NUM_THREADS='1')
    env.pop('PYTHONOPTIMIZE', None)
    env.pop('VERIF_LOGGING', None)
    if optimize:
        env['PYTHONOPTIMIZE'] = str(optimize)
    if logging_level:
        env['VERIF_LOGGING'] = logging_level
    p = subprocess.run([sys.executable, '-W', 'ignore', os.path.join(boot.VERIF, 'tools', 'treepy.py'), boot.REPO] + list(script_args),
                       capture_output=True, timeout=timeout, env=env, input=stdin)
    return p.returncode, p.stdout, p.stderr


def process_environment():
    """called first thing by fresh-process scripts: applies the part of the process environment that is not an interpreter option"""
    lv = os.environ.get('VERIF_LOGGING')
    if lv:
        import logging
        logging.basicConfig(level=getattr(logging, lv), stream=open(os.devnull, 'w'))
    return dict(optimize=sys.flags.optimize, logging=lv)


# ----------------------------------------------------------------------------------------- process-wide state the library must leave alone
def global_state():
    """a snapshot of interpreter / numpy state shared by everything in the process; a library call that changes it changes the behaviour
    of unrelated code that runs afterwards (history dependence)"""
    import numpy, decimal, locale, logging, warnings
    return dict(numpy_errstate=sorted(numpy.geterr().items()), numpy_errcall=repr(numpy.geterrcall()),
                numpy_printoptions=sorted((k, repr(v)) for k, v in numpy.get_printoptions().items()),
                recursion_limit=sys.getrecursionlimit(), cwd=os.getcwd(), decimal_prec=decimal.getcontext().prec,
                decimal_rounding=decimal.getcontext().rounding, locale=repr(locale.getlocale()), root_log_level=logging.getLogger().level,
                log_disable=logging.root.manager.disable, stdout=id(sys.stdout), stderr=id(sys.stderr),
                umask=_umask(), float_repr=sys.float_repr_style, int_max_str_digits=getattr(sys, 'get_int_max_str_digits', lambda: 0)())


def _umask():
    m = os.umask(0)
    os.umask(m)
    return m


def global_state_diff(a, b):
    return ['%s: %r -> %r' % (k, a[k], b[k]) for k in sorted(a) if a[k] != b[k]]
