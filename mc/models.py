"""Shared alphabets: species labels, the potential library (each entry with reference semantics),
Python-only callables, ini rendering of pair models."""
import math
from .refmodel.jets import Jet, jexp
from .refmodel import expr as X
from .refmodel import forms as F
from .refmodel.expr import form, D, mod

EPS = 2.220446049250313e-16
H = 1e-6   # documented step of the numerical derivative fallback

# ------------------------------------------------------------------------------------------ custom / table forms
CUSTOM_TEXT = {
    'mix': ('mix(r, A, rho)', 'A*exp(-r/rho) - inner(r, 3.0)'),
    'inner': ('inner(r, C)', 'C/r^6 + as.morse(r, 1.8, 2.0, 0.1)'),
    'qq': ('qq(r, qi, qj)', '14.4*qi*qj/r + 50.0*exp(-r/0.3)'),
    # calls another formula with arguments that differ from its own same-named parameters (r, A), before and after using them
    'sf': ('sf(r, A, rho)', 'inner2(1.5, rho) + A*exp(-r/rho) + inner2(r, A) - (r - 1.5)*inner2(2.5, 0.25)'),
    'inner2': ('inner2(r, A)', 'A/r^2'),
    # several exprtk statements separated by ' ; ' (the value is that of the last one)
    'ms': ('ms(r, A, rho)', 'var x := -r/rho ; var e := exp(x) ; A*e + 1/r'),
    # spellings of calls to built-in forms: blank before the bracket, upper case
    'wb': ('wb(r, A)', 'as.buck (r, A, 0.3, 1.0) + AS.Morse(r, 1.8, 2.0, 0.1)'),
    # continued over three lines with end-of-line comments of the formula language on the first two
    'cm': ('cm(r, A, rho)', 'A*exp(-r/rho)  // repulsion\n    - 3.0/r^6 # dispersion\n    + 0.5'),
    # assigns to its own parameters (a unit conversion in place): every evaluation starts from the values given in the file
    'conv': ('conv(r, D, a)', 'D := D*0.5; a := a + 0.1; D*exp(-a*r) + 1/r'),
    # the formula language is case-insensitive: parameters, the separation and functions spelt in another case than in the signature
    'cs': ('cs(r, A, rho, C)', 'a*Exp(-R/RHO) - C/R^6 + as.Buck(r, 10.0, Rho, 0.0)'),
    # parameter names that happen to be Python keywords / builtins (they are ordinary variables of the formula language)
    'yk': ('yk(r, A, lambda, del)', 'A*exp(-r/lambda)/r + del/r^2'),
    # a piece-wise / series form with twenty parameters (r + 20 names), calling another form
    'p20': ('p20(r, %s)' % ', '.join('c%d' % i for i in range(20)), 'inner2(r, c0) + ' + ' + '.join('c%d*exp(-%d*r/4)' % (i, i) for i in range(1, 20))),
    # block syntax of the formula language
    'br': ('br(r, A)', 'if (r > 1.0) { A*exp(-r); } else { A/exp(r); }'),
}


def _c_inner(r, C):
    return C / r.ipow(6) + F.morse(r, 1.8, 2.0, 0.1)


def _c_qq(r, qi, qj):
    return 14.4 * qi * qj / r + 50.0 * jexp(-r / 0.3)


def _c_mix(r, A, rho):
    return A * jexp(-r / rho) - _c_inner(r, 3.0)


def _c_inner2(r, A):
    return A / (r * r)


def _c_sf(r, A, rho):
    return _c_inner2(Jet(1.5), rho) + A * jexp(-r / rho) + _c_inner2(r, A) - (r - 1.5) * _c_inner2(Jet(2.5), 0.25)


def _c_ms(r, A, rho):
    return A * jexp(-r / rho) + 1.0 / r


def _c_cm(r, A, rho):
    return A * jexp(-r / rho) - 3.0 / r.ipow(6) + 0.5


def _c_conv(r, D, a):
    return (D * 0.5) * jexp(-(a + 0.1) * r) + 1.0 / r


def _c_br(r, A):
    return A * jexp(-r)


def _c_cs(r, A, rho, C):
    return A * jexp(-r / rho) - C / r.ipow(6) + F.buck(r, 10.0, rho, 0.0)


def _c_yk(r, A, lam, de):
    return A * jexp(-r / lam) / r + de / (r * r)


def _c_p20(r, *c):
    out = _c_inner2(r, c[0])
    for i in range(1, 20):
        out = out + c[i] * jexp(-(i / 4.0) * r)
    return out


def _c_wb(r, A):
    return F.buck(r, A, 0.3, 1.0) + F.morse(r, 1.8, 2.0, 0.1)


TABLE_DATA = {
    'tf': ([0.0, 0.4, 0.9, 1.5, 2.2, 3.0, 4.1, 5.5, 7.0, 13.0],
           [9.0, 5.5, 2.0, -0.7, -1.3, -0.9, -0.4, -0.15, -0.05, 0.0]),
}

_env = None


def env():
    global _env
    if _env is None:
        _env = X.Env(custom={'mix': _c_mix, 'inner': _c_inner, 'qq': _c_qq, 'sf': _c_sf, 'inner2': _c_inner2, 'ms': _c_ms, 'wb': _c_wb, 'cm': _c_cm, 'conv': _c_conv, 'br': _c_br, 'cs': _c_cs, 'yk': _c_yk, 'p20': _c_p20, 'py_abs': _py_abs, 'py_intfirst': _py_g, 'py_np0d': _py_f, 'py_np0d0': _py_f0, 'py_plain': _py_f, 'py_deriv': _py_f, 'py_both': _py_f, 'py_bound': _py_f},
                     tables={k: X.RefTable(*v) for k, v in TABLE_DATA.items()})
    return _env


# ------------------------------------------------------------------------------------------ potential library
# (name, defn, tags)   tags: 'api' = composable through the Python API; 'numeric' = contains a component without
# analytic derivative (custom formula); all are curved and pairwise distinct on every grid used.
def library():
    buck = form('buck', 1000.0, 0.3, 32.0)
    L = [
        ('buck', D(buck), {'api'}),
        ('morse', D(form('morse', 1.8, 2.0, 0.6)), {'api'}),
        ('lj', D(form('lj', 0.2, 2.5)), {'api'}),
        ('polynomial', D(form('polynomial', 1.0, -2.0, 0.5, 0.1)), {'api'}),
        ('bornmayer', D(form('bornmayer', 850.0, 0.35)), {'api'}),
        ('coul', D(form('coul', 2.4, -1.2)), {'api'}),
        ('hbnd', D(form('hbnd', 120.0, 35.0)), {'api'}),
        ('sqrt', D(form('sqrt', 2.5)), {'api'}),
        ('exponential', D(form('exponential', 3.0, -2.5)), {'api'}),
        ('zbl', D(form('zbl', 14, 8)), {'api'}),
        # below ~0.8 A the defining sum cancels catastrophically in double precision (both in the reference and in the
        # implementation), so the tabulated instance starts at 0.9
        ('tang_toennies', D(('>=', 0.9, form('tang_toennies', 41.96, 2.523, 1.461, 14.11, 183.6))), {'api'}),
        ('sum', D(mod('sum', form('bornmayer', 850.0, 0.35), form('coul', 2.4, -1.2), form('hbnd', 120.0, 35.0))), {'api'}),
        ('product', D(mod('product', form('exponential', 3.0, -2.5), form('morse', 1.8, 2.0, 0.6))), {'api'}),
        ('pow', D(mod('pow', form('buck', 1000.0, 0.3, 0.0), form('constant', 0.5))), {'api'}),
        ('pow_var', D(mod('pow', form('polynomial', 3.0, 2.0), form('polynomial', 0.2, 0.5))), {'api'}),
        ('product3', D(mod('product', form('constant', 2.0), form('bornmayer', 850.0, 0.35), form('morse', 1.8, 2.0, 0.6))), {'api'}),
        ('mod_in_ranges', D(('>', 0.0, mod('sum', form('bornmayer', 850.0, 0.35), form('coul', 2.4, -1.2))),
                            ('>=', 2.05, mod('product', form('exponential', 3.0, -2.5), form('morse', 1.8, 2.0, 0.6)))), {'api'}),
        ('pow_of_pow', D(mod('pow', mod('pow', form('polynomial', 3.0, 2.0), form('constant', 2)), form('sqrt', 0.3))), {'api'}),
        ('trans', D(mod('trans', form('lj', 0.2, 2.5), x=0.75)), set()),
        ('nested', D(mod('sum', mod('product', form('constant', 2.0), form('bornmayer', 850.0, 0.35)),
                         mod('trans', form('morse', 1.8, 2.0, 0.6), x=-0.5))), set()),
        ('tworange', D(('>=', 0.0, form('zbl', 14, 8)), ('>', 1.1, buck)), {'api'}),
        ('threerange', D(('>', 0.0, form('bornmayer', 850.0, 0.35)), ('>=', 0.9, form('polynomial', 3.0, -1.0, 0.2)),
                         ('>', 2.05, form('lj', 0.2, 2.5))), {'api'}),
        ('spline_exp', D({"mod": "spline", "start": form('zbl', 14, 8), "detach": ['>=', 0.8], "kind": "exp_spline",
                          "rmin": None, "attach": ['>=', 1.4], "end": form('buck', 18003.0, 0.3, 32.0), "first": ['>', 0.0]}), set()),
        ('spline_buck4', D({"mod": "spline", "start": form('buck', 1388.773, 0.3623, 0.0), "detach": ['>', 1.2],
                            "kind": "buck4_spline", "rmin": 2.1, "attach": ['>', 2.6], "end": form('buck', 0.0, 1.0, 175.0),
                            "first": None}), set()),
        # the first part of a spline with its own lower bound above the first rows; an end part that is a shifted potential
        ('spline_lower', D({"mod": "spline", "start": form('zbl', 14, 8), "detach": ['>=', 0.8], "kind": "exp_spline",
                            "rmin": None, "attach": ['>=', 1.4], "end": form('buck', 18003.0, 0.3, 32.0), "first": ['>=', 0.33]}), set()),
        ('spline_trans', D({"mod": "spline", "start": form('zbl', 14, 8), "detach": ['>', 0.8], "kind": "exp_spline",
                            "rmin": None, "attach": ['>=', 1.4], "end": mod('trans', form('buck', 1388.773, 0.3623, 175.0), x=0.25), "first": None}), set()),
        # more ranges than any hand-written search would special-case: a piecewise potential with one polynomial per knot interval
        ('twelverange', D(*[('>=' if k % 2 else '>', 0.25 * k, form('polynomial', 3.0 - 0.2 * k, -1.0 + 0.05 * k, 0.1 + 0.01 * k)) for k in range(12)]), {'api'}),
        # a very short-ranged repulsion: its tail underflows to 1e-100 .. 1e-170 on ordinary grids (three-digit exponents)
        ('tiny_tail', D(form('bornmayer', 1000.0, 0.03)), {'api'}),
        ('buck4', D(form('buck4', 1388.773, 0.3623, 175.0, 1.2, 2.1, 2.6)), {'api'}),
        ('custom', D({"custom": "mix", "params": [700.0, 0.4]}), {'numeric'}),
        ('custom_in_sum', D(mod('sum', {"custom": "inner", "params": [12.0]}, form('bornmayer', 850.0, 0.35))), {'numeric'}),
        ('table', D({"table": "tf"}), set()),
        ('custom_shared', D({"custom": "sf", "params": [700.0, 0.4]}), {'numeric'}),
        ('custom_ms', D({"custom": "ms", "params": [650.0, 0.35]}), {'numeric'}),
        ('custom_spell', D({"custom": "wb", "params": [900.0]}), {'numeric'}),
        ('custom_comments', D({"custom": "cm", "params": [700.0, 0.4]}), {'numeric'}),
        # two formula ranges (no analytic derivative) followed by an analytic one
        ('two_custom_ranges', D(('>', 0.0, {"custom": "qq", "params": [2, -1]}), ('>=', 1.55, {"custom": "inner", "params": [12.0]}), ('>=', 2.55, form('zero'))), {'numeric'}),
        ('custom_assign', D(mod('sum', {"custom": "conv", "params": [2.0, 0.7]}, {"custom": "conv", "params": [3.0, 0.7]})), {'numeric'}),
        ('custom_braces', D(('>', 0.0, {"custom": "br", "params": [2.0]})), {'numeric'}),
        ('custom_case', D({"custom": "cs", "params": [800.0, 0.33, 12.0]}), {'numeric'}),
        ('custom_20params', D({"custom": "p20", "params": [1.5] + [round(3.0 / (i + 1), 6) * (-1) ** i for i in range(1, 20)]}), {'numeric'}),
        # the same definition given twice to one modifier (squaring a switching function, doubling a term)
        ('product_same', D(mod('product', form('morse', 1.8, 2.0, 0.6), form('morse', 1.8, 2.0, 0.6))), {'api'}),
        ('sum_same3', D(mod('sum', form('buck', 1000.0, 0.3, 32.0), form('lj', 0.2, 2.5), form('lj', 0.2, 2.5), form('buck', 1000.0, 0.3, 32.0))), {'api'}),
        ('custom_keyword', D({"custom": "yk", "params": [500.0, 0.6, 1.5]}), {'numeric'}),
        # modifiers whose operands are a formula (no analytic derivative) and a built-in form, both ways round; more than two operands of pow
        ('pow_custom', D(mod('pow', {"custom": "ms", "params": [650.0, 0.35]}, form('constant', 2))), {'numeric'}),
        ('pow_custom_rev', D(mod('pow', form('constant', 2), {"custom": "br", "params": [2.0]})), {'numeric'}),
        ('pow4', D(mod('pow', form('polynomial', 1.5, 0.5), form('constant', 1.5), form('constant', 2), form('polynomial', 0.5, 0.05))), {'api'}),
        # hash(-1) == hash(-2) in CPython: parameter lists that differ only by -1 <-> -2 (formal charges of F and O) catch caches keyed by hash
        ('qq_m1', D({"custom": "qq", "params": [2, -1]}), {'numeric'}),
        ('qq_m2', D({"custom": "qq", "params": [2, -2]}), {'numeric'}),
        ('coul_m1', D(form('coul', 2, -1)), {'api'}),
        ('coul_m2', D(form('coul', 2, -2)), {'api'}),
    ]
    return L


LIB = None


def lib():
    global LIB
    if LIB is None:
        LIB = library()
    return LIB


def lib_by_name(name):
    for n, d, t in lib():
        if n == name:
            return d, t
    raise KeyError(name)


# ------------------------------------------------------------------------------------------ Python-only callables
def _py_f(r):          # reference (Jet) for all three python-only callables
    r = r if isinstance(r, Jet) else Jet.var(r)
    return 4.0 * jexp(-1.3 * r) + 0.05 * r * r - 0.7 / r


def _py_f0(r):         # regular at r = 0
    r = r if isinstance(r, Jet) else Jet.var(r)
    return 4.0 * jexp(-1.3 * r) + 0.05 * r * r


PY_AX = 2.6137


def _py_abs(r):        # 1.5 |r - x0|^3 + 0.3/r : twice differentiable, written with abs()
    r = r if isinstance(r, Jet) else Jet.var(r)
    x = r - PY_AX
    s_ = 1.0 if x.v >= 0 else -1.0
    return 1.5 * s_ * x * x * x + 0.3 / r


PY_RC = 0.4371      # plateau radius of py_intfirst (not on any decimal grid)


def _py_g(r):
    r = r if isinstance(r, Jet) else Jet.var(r)
    if r.v < PY_RC:
        return Jet(3.0)
    return 3.0 * jexp(-2.0 * (r - PY_RC))


def py_callables():
    """name -> (factory returning a fresh callable for the API, reference Jet function, numeric?)"""
    def plain():
        def f(r):
            return 4.0 * math.exp(-1.3 * r) + 0.05 * r * r - 0.7 / r
        return f

    def with_deriv():
        f = plain()

        def deriv(r):
            return -5.2 * math.exp(-1.3 * r) + 0.1 * r + 0.7 / (r * r)
        f.deriv = deriv
        return f

    def with_both():
        f = with_deriv()

        def deriv2(r):
            return 6.76 * math.exp(-1.3 * r) + 0.1 - 1.4 / (r * r * r)
        f.deriv2 = deriv2
        return f
    def intfirst():
        # returns a Python int on the plateau (first grid points) and floats further out
        def g(r):
            return 3 if r < PY_RC else 3.0 * math.exp(-2.0 * (r - PY_RC))
        return g
    def np0d():
        # what scipy interpolants return: a 0-d numpy array
        import numpy
        f = plain()
        return lambda r: numpy.array(f(r))

    def np0d0():
        import numpy
        return lambda r: numpy.array(4.0 * math.exp(-1.3 * r) + 0.05 * r * r)
    def with_abs():
        return lambda r: 1.5 * abs(r - PY_AX) ** 3 + 0.3 / r

    def bound():
        # an interaction re-used for another species pair: the callable is the bound energy() method of an existing Potential object
        import atsim.potentials as ap
        return ap.Potential('Si', 'O', with_both()).energy
    return {'py_bound': (bound, _py_f, True), 'py_abs': (with_abs, _py_abs, True), 'py_plain': (plain, _py_f, True), 'py_deriv': (with_deriv, _py_f, False), 'py_both': (with_both, _py_f, False),
            'py_intfirst': (intfirst, _py_g, True), 'py_np0d': (np0d, _py_f, True), 'py_np0d0': (np0d0, _py_f0, True)}


PY_BREAKPOINTS = {'py_intfirst': [PY_RC]}


# ------------------------------------------------------------------------------------------ potential OBJECTS (not callables)
OBJ_RC = 7.77
SI_H = 1e-16


def _obj_sub_ref(r):
    r = r if isinstance(r, Jet) else Jet.var(r)
    return _py_f(r) - _py_f(Jet(OBJ_RC)).v


def _obj_duck_ref(r):
    r = r if isinstance(r, Jet) else Jet.var(r)
    return 2.5 * jexp(-1.1 * r) + 0.3 / r


def _obj_si_ref(r):
    # Born-Mayer + dispersion in SI units (J, m)
    r = r if isinstance(r, Jet) else Jet.var(r)
    return 1.6e-16 * jexp(-r / 3e-11) - 5e-78 / r.ipow(6)


def _obj_sub0_ref(r):
    r = r if isinstance(r, Jet) else Jet.var(r)
    f = lambda x: 4.0 * jexp(-1.3 * x) + 0.05 * x * x  # noqa
    return f(r) - f(Jet(OBJ_RC)).v


def _obj_duck0_ref(r):
    r = r if isinstance(r, Jet) else Jet.var(r)
    return 2.5 * jexp(-1.1 * r) + 0.1 * r


def py_objects():
    """name -> dict(make=(a, b) -> object handed to the tabulation classes, ref=Jet function, numeric, h)
    obj_sub  : subclass of Potential that overrides energy() (energy shifted to zero at OBJ_RC), force() inherited
    obj_duck : plain object offering speciesA, speciesB, energy(r), force(r)
    obj_h    : Potential(..., h=1e-3): the documented step of the numerical derivative chosen by the caller
    obj_si   : SI-unit potential (r ~ 1e-10 m) with h=1e-16 - the default step is 10^4 x larger than r itself"""
    import atsim.potentials as ap
    pyc = py_callables()

    class Shifted(ap.Potential):
        def energy(self, r):
            return super(Shifted, self).energy(r) - self.potentialFunction(OBJ_RC)

    class Duck(object):
        def __init__(self, a, b):
            self.speciesA, self.speciesB = a, b

        def energy(self, r):
            return 2.5 * math.exp(-1.1 * r) + 0.3 / r

        def force(self, r):
            return 2.75 * math.exp(-1.1 * r) + 0.3 / (r * r)

    class Duck0(Duck):
        def energy(self, r):
            return 2.5 * math.exp(-1.1 * r) + 0.1 * r

        def force(self, r):
            return 2.75 * math.exp(-1.1 * r) - 0.1

    def reg0():
        def f(r):
            return 4.0 * math.exp(-1.3 * r) + 0.05 * r * r
        f.deriv = lambda r: -5.2 * math.exp(-1.3 * r) + 0.1 * r
        return f

    def si(r):
        return 1.6e-16 * math.exp(-r / 3e-11) - 5e-78 / r ** 6
    return {'obj_sub': dict(make=lambda a, b: Shifted(a, b, pyc['py_deriv'][0]()), ref=_obj_sub_ref, numeric=False, h=H),
            'obj_duck': dict(make=lambda a, b: Duck(a, b), ref=_obj_duck_ref, numeric=False, h=H),
            'obj_sub0': dict(make=lambda a, b: Shifted(a, b, reg0()), ref=_obj_sub0_ref, numeric=False, h=H),
            'obj_duck0': dict(make=lambda a, b: Duck0(a, b), ref=_obj_duck0_ref, numeric=False, h=H),
            'obj_si': dict(make=lambda a, b: ap.Potential(a, b, si, h=SI_H), ref=_obj_si_ref, numeric=True, h=SI_H)}


# ------------------------------------------------------------------------------------------ numeric-derivative allowance
def err_scale(d, r, e):
    """magnitude M such that a first derivative obtained with one numerical-difference level somewhere in the
    expression tree is within ~ EPS*M/H of the exact one (abs-value propagation of the derivative rules)."""
    sel = X.select_range(d['ranges'], r)
    if sel is None:
        return 0.0
    return _err_item(sel[2], r, e)


def _err_item(it, r, e):
    if 'mod' not in it:
        return abs(X.ev_item(it, r, e).v)
    m = it['mod']
    if m == 'sum':
        return sum(err_scale(a, r, e) for a in it['args'])
    if m == 'product':
        vals = [abs(X.ev_defn(a, r, e).v) for a in it['args']]
        ms = [err_scale(a, r, e) for a in it['args']]
        tot = 0.0
        for i in range(len(vals)):
            p = ms[i]
            for j in range(len(vals)):
                if j != i:
                    p *= vals[j]
            tot += p
        return tot
    if m == 'pow':
        if len(it['args']) > 2:
            return err_scale({'ranges': [[None, None, {'mod': 'pow', 'args': [{'ranges': [[None, None, {'mod': 'pow', 'args': it['args'][:-1]}]]}, it['args'][-1]]}]]}, r, e)
        a, b = it['args']
        av, bv = X.ev_defn(a, r, e).v, X.ev_defn(b, r, e).v
        p = abs(av ** bv)
        la = abs(math.log(abs(av))) if av != 0 else 0.0
        return p * (abs(bv) * err_scale(a, r, e) / max(abs(av), 1e-300) + la * err_scale(b, r, e))
    if m == 'trans':
        return err_scale(it['args'][0], r + it['x'], e)
    return abs(X.ev_item(it, r, e).v)


def third_deriv(fn, r, delta=1e-4):
    """|f'''(r)| of a reference jet function by differencing its exact second derivative"""
    return abs(fn(r + delta).d2 - fn(r - delta).d2) / (2 * delta)


def num_allow(M, f3=0.0, K=50.0, h=H):
    return K * (EPS * M / h) + K * (h * h / 24.0) * f3


# ------------------------------------------------------------------------------------------ ini rendering
def needs(defns):
    """which custom / table sections a list of definitions requires"""
    cust, tabs = set(), set()

    def walk_item(it):
        if 'custom' in it:
            cust.add(it['custom'])
        if 'table' in it:
            tabs.add(it['table'])
        for a in it.get('args', []):
            walk(a)
        for k in ('start', 'end'):
            if k in it:
                walk_item(it[k])

    def walk(d):
        for _m, _s, it in d['ranges']:
            walk_item(it)
    for d in defns:
        walk(d)
    if 'mix' in cust:
        cust.add('inner')
    if 'sf' in cust or 'p20' in cust:
        cust.add('inner2')
    return cust, tabs


def render_support(defns, sep=' : '):
    cust, tabs = needs(defns)
    out = []
    if cust:
        out.append('[Potential-Form]')
        for k in sorted(cust):
            out.append('%s%s%s' % (CUSTOM_TEXT[k][0], ' = ', CUSTOM_TEXT[k][1]))
        out.append('')
    for t in sorted(tabs):
        x, y = TABLE_DATA[t]
        out.append('[Table-Form:%s]' % t)
        out.append('interpolation%scubic_spline' % sep)
        out.append('x%s%s' % (sep, ' '.join(X.num(v) for v in x)))
        out.append('y%s%s' % (sep, ' '.join(X.num(v) for v in y)))
        out.append('')
    return out


def pair_ini(target, pots, cutoff, nr, sep=' : ', extra_tab=()):
    """pots: [(speciesA, speciesB, defn)]"""
    out = ['[Tabulation]']
    if target is not None:
        out.append('target%s%s' % (sep, target))
    out.append('cutoff%s%s' % (sep, X.num(cutoff)))
    out.append('nr%s%d' % (sep, nr))
    out.extend(extra_tab)
    out.append('')
    out.append('[Pair]')
    for a, b, d in pots:
        out.append('%s-%s%s%s' % (a, b, sep, X.render_defn(d)))
    out.append('')
    out.extend(render_support([d for _a, _b, d in pots], sep))
    return '\n'.join(out) + '\n'
