"""Shared machinery of the pair-table checks (C01 LAMMPS, C02 DL_POLY, C19 GULP/excel):
case spaces, the four access routes for any pair target, reference semantics per potential."""
import io, itertools

from . import models as M, routes as R
from .refmodel import expr as X
from .refmodel.jets import Jet

LABELS_INI = [('A', 'B'), ('Si', 'O'), ('O', 'O'), ('U4+', 'Mg_c'), ('B', 'A'), ('C', 'D'), ('O_core', 'O_shel'), ('Uranium4', 'O2minus_')]
LAB3_PREFIX = [[('Li', 'O'), ('Li+', 'O'), ('Li', 'Li+')], [('O', 'O*'), ('O*', 'O*'), ('O', 'O')]]
LABELS_API = LABELS_INI + [('core-O', 'O2-')]
ROUTES = ['cls', 'wp', 'cfg', 'potable']

CLS = {'LAMMPS': 'LAMMPS_PairTabulation', 'DL_POLY': 'DLPoly_PairTabulation', 'GULP': 'GULP_PairTabulation',
       'excel': 'Excel_PairTabulation'}


def grid_lattice(tier, mult4=False, big=True):
    """(cutoff, nr) lattice of the grid sweep: decimal cutoffs (1 and 2 decimals) x row counts"""
    cut = [k / 10.0 for k in range(1, 151)]
    if tier == 'quick':
        cut += [k / 100.0 for k in range(5, 1500, 37)] + [9.99]
        nrs = list(range(3, 34)) + [50, 60, 100, 101, 120, 400, 1000, 1200]
    else:
        cut += [k / 100.0 for k in range(1, 1501) if k % 10]
        nrs = list(range(3, 66)) + [100, 101, 120, 400, 500, 1000, 1001, 1200, 1500, 2000, 2001]
    cut += [3.141592653589793, 0.6666666666666666, 6.283185307179586, 12.3456789]      # cutoffs that are not short decimals
    if mult4:
        nrs = [n for n in nrs if n % 4 == 0 and n > 4]
    big = [(10.0, 10001), (12.3456789, 20000), (6.5, 16384), (3.141592653589793, 5000)]       # very large row counts
    if mult4:
        big = [(c, n) for c, n in big if n % 4 == 0]
    return [(c, n) for c in cut for n in nrs] + big


def model_grids(tier, mult4=False):
    if mult4:
        if tier == 'quick':
            return [(1.0, 8), (2.5, 12), (6.5, 16), (0.7, 8), (10.0, 100), (6.5, 20)]
        return [(c, n) for c in (0.7, 1.0, 2.5, 6.5, 10.0, 12.3) for n in (8, 12, 16, 20, 24, 28, 40)] + [(10.0, 100), (10.0, 1000), (8.0, 2000)]
    if tier == 'quick':
        return [(1.0, 3), (2.5, 4), (6.5, 5), (1.0, 8), (6.5, 12), (0.2, 3), (10.0, 101), (2.5, 12)]
    g = [(c, n) for c in (0.7, 1.0, 2.5, 6.5, 10.0, 12.3) for n in list(range(3, 25))]
    return g + [(10.0, 100), (10.0, 101), (10.0, 1001), (8.0, 1001), (5.0, 101), (6.5, 1000), (0.2, 3), (10.0, 2001)]


def regular_at_zero(name):
    """library entries whose potable-semantics value exists at r = 0 (targets whose grid starts at r = 0)"""
    if name in M.py_callables():
        return False
    try:
        X.ev_defn(M.lib_by_name(name)[0], 0.0, M.env())
        return True
    except (ZeroDivisionError, ValueError, OverflowError):
        return False


def pair_cases(tier, routes=ROUTES, mult4=False, api_labels=True, sweep_pot='polynomial', from_zero=False, objects=True, si=False):
    """ordered (simplest first) list of case dicts: route, cutoff, nr, pots=[[a, b, libname], ...]"""
    lib = M.lib()
    names = [n for n, _d, _t in lib]
    pyn = sorted(n for n in M.py_callables() if n != 'py_np0d0') + (['obj_sub', 'obj_duck'] if objects else [])
    if from_zero:
        names = [n for n in names if regular_at_zero(n)]
        pyn = ['py_np0d0'] + (['obj_sub0', 'obj_duck0'] if objects else [])
    out = []
    G = model_grids(tier, mult4)
    # (1) every library potential alone x grid x route, rotating labels
    for gi, (cutoff, nr) in enumerate(G):
        for ni, n in enumerate(names + pyn):
            for route in routes:
                if n in pyn and route in ('cfg', 'potable'):
                    continue
                labs = LABELS_API if (route in ('cls', 'wp') and api_labels) else LABELS_INI
                a, b = labs[(ni + gi) % len(labs)]
                out.append(dict(route=route, cutoff=cutoff, nr=nr, pots=[[a, b, n]]))
    # (2) ordered pairs of potentials, label pairs incl. reversed / repeated species
    sub = ['buck', 'tworange', 'custom', 'table', 'spline_exp', 'py_plain'] if tier == 'quick' else names + pyn
    sub = [n for n in sub if n in names + pyn]
    G2 = G[:3] if tier == 'quick' else G[:4] + G[-6:]
    labsets = [[('A', 'B'), ('B', 'A')], [('O', 'O'), ('Si', 'O')], [('A', 'A'), ('B', 'B')], [('U4+', 'Mg_c'), ('Mg_c', 'Mg_c')]]
    for (cutoff, nr) in G2:
        for i, (n1, n2) in enumerate(itertools.permutations(sub, 2)):
            for route in routes:
                if (n1 in pyn or n2 in pyn) and route in ('cfg', 'potable'):
                    continue
                ls = labsets[i % len(labsets)]
                if route in ('cfg', 'potable') and ls[0] == ('A', 'B') and ls[1] == ('B', 'A'):
                    ls = [('A', 'B'), ('B', 'C')]   # A-B together with B-A is a duplicate pair in a file (C20)
                out.append(dict(route=route, cutoff=cutoff, nr=nr, pots=[[ls[0][0], ls[0][1], n1], [ls[1][0], ls[1][1], n2]]))
    # (3) lists of 3 potentials: all orders of a triple
    triples = [('buck', 'morse', 'custom'), ('threerange', 'table', 'nested')]
    if tier != 'quick':
        triples += [('zbl', 'buck4', 'trans'), ('lj', 'pow', 'spline_buck4')]
    lab3 = [('A', 'A'), ('A', 'B'), ('B', 'B')]
    for (cutoff, nr) in (G2[:2] if tier == 'quick' else G2):
        for tr in triples:
            if any(t not in names + pyn for t in tr):
                continue
            for perm in itertools.permutations(range(3)):
                for route in routes:
                    out.append(dict(route=route, cutoff=cutoff, nr=nr,
                                    pots=[[lab3[j][0], lab3[j][1], tr[p]] for j, p in enumerate(perm)]))
                    # labels one of which is a prefix of another, the longer one continuing with a character that sorts below '-' ('+', '*'):
                    # sorting the joined labels 'Li+-O' / 'Li-O' and sorting the species tuples give different orders
                    for l3 in LAB3_PREFIX:
                        out.append(dict(route=route, cutoff=cutoff, nr=nr, pots=[[l3[j][0], l3[j][1], tr[p]] for j, p in enumerate(perm)]))
    # (4) grid sweep: one cheap curved potential on the whole (cutoff, nr) lattice (quick: class route; thorough: every route)
    for i, (cutoff, nr) in enumerate(grid_lattice(tier, mult4)):
        for route in (routes if tier != 'quick' else [routes[i % len(routes)]]):
            out.append(dict(route=route, cutoff=cutoff, nr=nr, pots=[['A', 'B', sweep_pot]], sweep=True))
    # (4b) hash(-1) == hash(-2): two pairs whose parameter lists differ only by -1 <-> -2, both orders
    for (cutoff, nr) in G[:2]:
        for a_, b_ in (('qq_m1', 'qq_m2'), ('qq_m2', 'qq_m1'), ('coul_m1', 'coul_m2'), ('coul_m2', 'coul_m1')):
            if from_zero and not (regular_at_zero(a_) and regular_at_zero(b_)):
                continue
            for route in routes:
                out.append(dict(route=route, cutoff=cutoff, nr=nr, pots=[['Ca', 'F', a_], ['Ca', 'O', b_], ['O', 'F', a_]]))
    # (4c) very large output (several MiB): 15 pairs on a 12 000-row grid
    big_names = [n for n in names if n in ('buck', 'morse', 'lj', 'polynomial', 'hbnd')] or names[:3]
    sp5 = ['Np', 'Kr', 'Xe', 'Ar', 'Ne']          # (15 two-letter pair labels: any one-line summary of them exceeds 80 characters)
    pairs15 = [(sp5[i], sp5[j]) for i in range(5) for j in range(i, 5)]
    for route in (routes if tier != 'quick' else routes[:1] + routes[-1:]):
        out.append(dict(route=route, cutoff=10.0, nr=12000, pots=[[a_, b_, big_names[k % len(big_names)]] for k, (a_, b_) in enumerate(pairs15)], big=True))
    # (4d) SI-unit potentials whose numerical derivative needs the caller's step h (only where the format prints exponents)
    if si:
        for (cutoff, nr) in ((1e-9, 8), (1e-9, 12), (8e-10, 100), (1.2e-9, 16)):
            for route in [r_ for r_ in routes if r_ in ('cls', 'wp')]:
                out.append(dict(route=route, cutoff=cutoff, nr=nr, pots=[['A', 'B', 'obj_si']]))
                out.append(dict(route=route, cutoff=cutoff, nr=nr, pots=[['B', 'B', 'obj_si'], ['A', 'B', 'obj_si']]))
    # (5) histories: the same table after a tabulation that failed at its k-th evaluation in this process
    for k in (1, 2, 3, 4, 5, 6, 7, 9):
        for route in routes:
            c, n = (G[1] if len(G) > 1 else G[0])
            out.append(dict(route=route, cutoff=c, nr=n, pots=[['A', 'B', 'buck'], ['B', 'B', 'morse']], pre_fail=k))
    return out


class _FailAt(object):
    def __init__(self, k):
        self.k, self.n = k, 0

    def __call__(self, r):
        self.n += 1
        if self.n == self.k:
            raise ValueError('injected failure at evaluation %d' % self.k)
        return 1.0 / (1.0 + r)


def pre_fail(case, target):
    """history prefix: a tabulation for the same target that fails at its k-th function evaluation"""
    import atsim.potentials as ap
    from atsim.potentials import pair_tabulation as PT
    k = case['pre_fail']
    objs = [ap.Potential('X', 'Y', _FailAt(k)), ap.Potential('Y', 'Y', _FailAt(10 ** 9))]
    fp = io.BytesIO() if target == 'excel' else io.StringIO()
    try:
        getattr(PT, CLS[target])(objs, case['cutoff'], case['nr']).write(fp)
    except ValueError:
        return True
    return False


_objs = None


def OBJ():
    global _objs
    if _objs is None:
        _objs = M.py_objects()
    return _objs


def api_able(n):
    if n in M.py_callables() or n.startswith('obj_'):
        return True
    _d, t = M.lib_by_name(n)
    return 'api' in t


_cfg_callable_cache = {}


FORCE_CFG = [False]   # targets whose grid starts at r = 0: every library callable is built by the config machinery


def callable_for(name):
    """fresh Python callable for library entry `name`: Python-API composition where one exists, otherwise the
    callable the config machinery builds for the potable text (hybrid route)"""
    pyc = M.py_callables()
    if name in pyc:
        return pyc[name][0](), 'api'
    d, t = M.lib_by_name(name)
    if 'api' in t and not FORCE_CFG[0]:
        return R.api_defn(d), 'api'
    ini = M.pair_ini('LAMMPS', [('X', 'Y', d)], 5.0, 6)
    tab = R.config_read(ini)
    return tab.potentials[0].potentialFunction, 'cfg'


def build_objs(pots):
    import atsim.potentials as ap
    return [OBJ()[n]['make'](a, b) if n.startswith('obj_') else ap.Potential(a, b, callable_for(n)[0]) for a, b, n in pots]


def semantics(name, route):
    if route in ('cls', 'wp') and api_able(name) and not (FORCE_CFG[0] and name not in M.py_callables()):
        return 'api'
    return 'cfg'


def ref(name, route):
    """-> (function r -> Jet, numeric?, defn-or-None) with the semantics the route gives this potential"""
    pyc = M.py_callables()
    if name in pyc:
        return pyc[name][1], pyc[name][2], None
    if name.startswith('obj_'):
        return OBJ()[name]['ref'], OBJ()[name]['numeric'], None
    d, t = M.lib_by_name(name)
    e = M.env()
    d2 = R.apiize(d) if semantics(name, route) == 'api' else d
    return (lambda r: X.ev_defn(d2, r, e)), ('numeric' in t), d2


_bp_cache = {}


def ill_conditioned(name, route, rr):
    """True when grid point rr lies within rounding distance of a range boundary of the potential (the value may
    legitimately come from either side: the row is skipped and counted)"""
    key = (name, semantics(name, route))
    if key not in _bp_cache:
        _fn, _num, d2 = ref(name, route)
        _bp_cache[key] = X.breakpoints(d2) if d2 is not None else set(M.PY_BREAKPOINTS.get(name, []))
    return X.near_breakpoint(_bp_cache[key], rr)


def force_allowance(name, route, rr, base):
    fn, numeric, d2 = ref(name, route)
    if not numeric:
        return base
    if name.startswith('obj_'):
        h = OBJ()[name]['h']
        return base + M.num_allow(abs(fn(rr).v), M.third_deriv(fn, rr, delta=1e-4 * rr), h=h)
    if d2 is not None:
        Ms = max(M.err_scale(d2, rr + s, M.env()) for s in (-M.H / 2, M.H / 2))
    else:
        Ms = max(abs(fn(rr + s).v) for s in (-M.H / 2, M.H / 2))
    return base + M.num_allow(Ms, M.third_deriv(fn, rr))


def ini_for(case, target, sep=' : '):
    return M.pair_ini(target, [(a, b, M.lib_by_name(n)[0]) for a, b, n in case['pots']], case['cutoff'], case['nr'], sep=sep)


def produce(case, target, omit_target=False, ini_target=None):
    """run the case's route for `target` (LAMMPS / DL_POLY / GULP / excel); returns text (bytes for excel).
    Exceptions of the implementation propagate to the caller."""
    import atsim.potentials as ap
    from atsim.potentials import pair_tabulation as PT
    route, cutoff, nr, pots = case['route'], case['cutoff'], case['nr'], case['pots']
    binary = target == 'excel'
    if case.get('pre_fail'):
        pre_fail(case, target)
    if route in ('cls', 'wp'):
        objs = build_objs(pots)
        fp = io.BytesIO() if binary else io.StringIO()
        if route == 'cls' or target == 'excel':
            getattr(PT, CLS[target])(objs, cutoff, nr).write(fp)
        else:
            ap.writePotentials(target, objs, cutoff, nr, fp)
        return fp.getvalue()
    ini = ini_for(case, None if omit_target else (ini_target or target))
    if route == 'cfg':
        return R.write_tabulation(R.config_read(ini))
    # OUTPUT_FILE exists already and is longer than the new table; every third grid: it is a symbolic link to such a file
    res = R.potable(ini, binary=binary, prefill='symlink' if nr % 3 == 0 else True)
    if getattr(res, 'link_replaced', False) and res.status == 0 and res.out_bytes == R.PREFILL:
        raise RuntimeError('OUTPUT_FILE was a symbolic link: potable replaced the link and left the file it pointed to unchanged')
    if res.exc is not None:
        raise res.exc
    if res.status != 0:
        raise RuntimeError('potable exit status %r: %s' % (res.status, res.stderr[-300:]))
    return res.out_bytes
